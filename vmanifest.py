#!/usr/bin/env python3
"""Regenerates MANIFEST.json from vprops.py (single source of truth for the per-property configuration)."""
import json, os, sys
VERIF = os.path.dirname(os.path.abspath(__file__))
sys.path.insert(0, VERIF)
from vprops import PROPS, NOT_APPLICABLE, ENGINES

checks = []
for pid in sorted(PROPS):
    c = PROPS[pid]
    checks.append({
        "property_id": pid,
        "quick_cmd": "python3 vcheck.py %s quick" % pid,
        "thorough_cmd": "python3 vcheck.py %s thorough" % pid,
        "evidence_file": "evidence/%s.json" % pid,
        "replay_cmd_template": "python3 vcheck.py %s quick --replay {path}" % pid,
        "engine": c.get("engine", ""),
        "level_claimed": {"category": "exploration", "text": c["level_text"], "design_ref": c.get("design_ref", "DESIGN.md section 5")},
        "level_note": c["level_note"],
        "technique": c["technique"],
    })
m = {
    "version": 1,
    "setup_cmd": "python3 vcheck.py --setup",
    "hooks": {
        "guard": "verif",
        "enable": "no hook is committed to /repo: at check time vcheck.py compiles the harness into the package with `go test -c -tags verif -overlay=<harness files, internal/verifsched, and (for the schedule-search checks) copies of /repo's current sources with schedule points inserted by tools/vinstr> -modfile=<go.mod + rapid v1.3.0 + replace of bytedance/gopkg by third_party/gopkg>`",
        "baseline_off_cmd": "cd /repo && go test -vet=off -count=1 -timeout 25m ./...",
        "source_commits": [],
        "add_only": True,
    },
    "engines": ENGINES,
    "checks": checks,
    "not_applicable": NOT_APPLICABLE,
    "notes": "All checks are generated-input searches (pgregory.net/rapid v1.3.0) against explicit oracles; see DESIGN.md. fix: commits in /repo are listed in known_findings.json.",
}
json.dump(m, open(os.path.join(VERIF, "MANIFEST.json"), "w"), indent=1)
print("MANIFEST.json written with %d checks, %d not_applicable" % (len(checks), len(NOT_APPLICABLE)))
