#!/usr/bin/env python3
import json,sys
for f in sys.argv[1:]:
    d=json.load(open(f))
    print(f, '['+d.get('signature','')+']', d.get('message','')[:300])
    r=d.get('replay') or {}
    if 'ops' in r:
        print('  cap',r.get('cap'),' '.join('%s[b%d](%s,%s,%s)'%(o['k'],o.get('b',0),o.get('n',0),o.get('m',0),o.get('x',0)) for o in r['ops']))
