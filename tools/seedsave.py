#!/usr/bin/env python3
"""usage: seedsave.py <seed-id> <property> <caught-by-json> <needs text> -- saves /tmp/seed/<seed-id> into /verif/seeded/<seed-id>/"""
import json, os, shutil, sys, glob
sid, prop, caught, needs = sys.argv[1], sys.argv[2], json.loads(sys.argv[3]), sys.argv[4]
base = os.environ.get('SEEDBASE', '/tmp/seed')
suffix = os.environ.get('SEEDSUFFIX', '')
src = base + '/' + sid
dst = '/verif/seeded/' + sid + suffix
os.makedirs(dst, exist_ok=True)
shutil.copy(src + '/patch.diff', dst + '/patch.diff')
demos = glob.glob(base + '/aside_%s/zz_demo*' % sid) + glob.glob(src + '/zz_demo*') + glob.glob(src + '/mux/zz_demo*')
seen = set()
for d in demos:
    b = os.path.basename(d)
    if b in seen: continue
    seen.add(b)
    shutil.copy(d, dst + '/' + b + '.txt')   # .txt: must not be compiled with /verif's own sources
if os.path.exists(src + '/REPORT.md'):
    shutil.copy(src + '/REPORT.md', dst + '/REPORT.md')
meta = {
    "id": sid + suffix, "breaks_property": prop, "needs_to_manifest": needs,
    "author": "independent sub-agent given only the property text and a scratch worktree",
    "confirmed": "tools/seedconfirm.sh %s: existing suite ok with the change; demonstration fails with it and passes without it" % sid,
    "checks_run": caught,
    "how_to_rerun": "tools/seedtest.sh seeded/%s/patch.diff quick %s" % (sid + suffix, prop),
}
json.dump(meta, open(dst + '/meta.json', 'w'), indent=1)
print('saved', dst, sorted(os.listdir(dst)))
