#!/usr/bin/env python3
import json,sys,glob
import jsonschema
jsonschema.validate(json.load(open('/verif/MANIFEST.json')), json.load(open('/root/.vp/MANIFEST.schema.json')))
es=json.load(open('/root/.vp/EVIDENCE.schema.json'))
for f in sorted(glob.glob('/verif/evidence/*.json')):
    jsonschema.validate(json.load(open(f)), es)
print('manifest + %d evidence files valid'%len(glob.glob('/verif/evidence/*.json')))
