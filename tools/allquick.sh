#!/bin/bash
# usage: tools/allquick.sh <tier> <seed> [PROP...]   -- runs the registered commands one after the other, one line each
tier=$1; seed=$2; shift 2
props=${@:-C01 C02 C03 C04 C05 C06 C07 C08 C09 C10 C11 C12 C13 C14 C15 C16 C17 C18 C19}
cd /verif
for p in $props; do
  t0=$(date +%s)
  out=$(VERIF_SEED=$seed python3 vcheck.py $p $tier 2>&1); rc=$?
  t1=$(date +%s)
  echo "seed=$seed $p $tier rc=$rc $((t1-t0))s $(echo "$out" | grep -m1 '^  \[\|VIOLATION\|INFRA' | cut -c1-200) | $(echo "$out" | grep -o 'unreproduced[^ ,]*[^,]*' | head -1)"
done
