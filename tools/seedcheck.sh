#!/bin/bash
# usage: tools/seedcheck.sh <ID> <tier> <PROP> [PROP...]
# Runs the named checks against the scratch worktree /tmp/seed/<ID> (seeded change applied there, demonstration moved
# aside) through VERIF_REPO, so that /repo is not touched and several seeded changes can be checked side by side.
set -u
id=$1; tier=$2; shift 2
d=${SEEDBASE:-/tmp/seed}/$id
cd $d || exit 2
git checkout -q -- . ; git apply patch.diff || { echo "patch does not apply"; exit 2; }
mkdir -p ${SEEDBASE:-/tmp/seed}/aside_$id; mv -f zz_demo*_test.go mux/zz_demo*_test.go ${SEEDBASE:-/tmp/seed}/aside_$id/ 2>/dev/null
for p in "$@"; do
  t0=$(date +%s)
  out=$(cd /verif && VERIF_REPO=$d VERIF_WORK_SUFFIX=-$id python3 vcheck.py $p $tier 2>&1)
  rc=$?
  t1=$(date +%s)
  sig=$(echo "$out" | grep -m1 '^  \[' | cut -c1-260)
  echo "RESULT $id $p $tier rc=$rc $((t1-t0))s $sig"
done
