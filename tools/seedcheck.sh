#!/bin/bash
# usage: tools/seedcheck.sh <ID> <tier> <PROP> [PROP...]
# Runs the named checks against a fresh scratch worktree of /repo with the seeded change /tmp/seed/<ID>/patch.diff
# applied (through VERIF_REPO), so that /repo is not touched and several seeded changes can be checked side by
# side; the worktree and its build output are removed afterwards.
set -u
id=$1; tier=$2; shift 2
src=${SEEDBASE:-/tmp/seed}/$id
d=/tmp/seedchk/$id
mkdir -p /tmp/seedchk
git -C /repo worktree remove --force $d 2>/dev/null
git -C /repo worktree add -q --detach $d HEAD || exit 2
( cd $d && git apply $src/patch.diff ) || { echo "patch does not apply"; git -C /repo worktree remove --force $d; exit 2; }
for p in "$@"; do
  t0=$(date +%s)
  out=$(cd /verif && VERIF_REPO=$d VERIF_WORK_SUFFIX=-$id python3 vcheck.py $p $tier 2>&1)
  rc=$?
  t1=$(date +%s)
  sig=$(echo "$out" | grep -m1 '^  \[' | cut -c1-260)
  echo "RESULT $id $p $tier rc=$rc $((t1-t0))s $sig"
  rm -rf /verif/work/$p-$tier-$id
done
git -C /repo worktree remove --force $d
