// vinstr: build-time schedule-point injector.
// usage: vinstr <repo> <outdir>
// Instruments every non-test Go file of the root package and of mux/ that is built on this
// platform (without the race tag), writes the copies and overlay.instr.json + points.json to <outdir>.
// Reads Go files, inserts calls to the verifsched runtime before statements that
// contain synchronisation / blocking / syscall operations, by pure text insertion
// (original bytes and line numbers are preserved).
package main

import (
	"encoding/json"
	"fmt"
	"go/ast"
	"go/build"
	"go/parser"
	"go/token"
	"os"
	"path/filepath"
	"sort"
	"strings"
)

const schedImport = `vs "github.com/cloudwego/netpoll/internal/verifsched"`

type point struct {
	ID   int    `json:"id"`
	File string `json:"file"`
	Line int    `json:"line"`
	Kind string `json:"kind"`
	Src  string `json:"src"`
}

type insertion struct {
	off  int
	text string
	seq  int
}

var points []point

func main() {
	if len(os.Args) != 3 {
		fmt.Fprintln(os.Stderr, "usage: vinstr <repo> <outdir>")
		os.Exit(2)
	}
	repo, out := os.Args[1], os.Args[2]
	overlay := map[string]string{}
	bctx := build.Default
	for _, dir := range []string{".", "mux"} {
		ents, err := os.ReadDir(filepath.Join(repo, dir))
		if err != nil {
			fmt.Fprintln(os.Stderr, "vinstr:", err)
			os.Exit(2)
		}
		for _, e := range ents {
			name := e.Name()
			if e.IsDir() || !strings.HasSuffix(name, ".go") || strings.HasSuffix(name, "_test.go") {
				continue
			}
			if ok, err := bctx.MatchFile(filepath.Join(repo, dir), name); err != nil || !ok {
				continue
			}
			rel := filepath.Join(dir, name)
			src := filepath.Join(repo, rel)
			data, err := os.ReadFile(src)
			if err != nil {
				fmt.Fprintln(os.Stderr, "vinstr:", err)
				os.Exit(2)
			}
			res, n, err := instrument(rel, data)
			if err != nil {
				fmt.Fprintln(os.Stderr, "vinstr: cannot parse", rel, err)
				os.Exit(2)
			}
			if n == 0 {
				continue
			}
			dst := filepath.Join(out, strings.ReplaceAll(rel, "/", "__"))
			if err := os.WriteFile(dst, res, 0o644); err != nil {
				fmt.Fprintln(os.Stderr, "vinstr:", err)
				os.Exit(2)
			}
			overlay[src] = dst
		}
	}
	pj, _ := json.MarshalIndent(points, "", " ")
	os.WriteFile(filepath.Join(out, "points.json"), pj, 0o644)
	oj, _ := json.MarshalIndent(map[string]interface{}{"Replace": overlay}, "", " ")
	os.WriteFile(filepath.Join(out, "overlay.instr.json"), oj, 0o644)
	fmt.Printf("instrumented %d files, %d points\n", len(overlay), len(points))
}

type ctx struct {
	fset *token.FileSet
	src  []byte
	rel  string
	ins  []insertion
}

func (c *ctx) text(n ast.Node) string {
	return string(c.src[c.fset.Position(n.Pos()).Offset:c.fset.Position(n.End()).Offset])
}

func (c *ctx) add(at token.Pos, kind string, stmt ast.Node, call string) {
	id := len(points)
	pos := c.fset.Position(stmt.Pos())
	s := c.text(stmt)
	if i := strings.IndexByte(s, '\n'); i >= 0 {
		s = s[:i]
	}
	points = append(points, point{ID: id, File: c.rel, Line: pos.Line, Kind: kind, Src: s})
	c.ins = append(c.ins, insertion{off: c.fset.Position(at).Offset, text: fmt.Sprintf(call, id), seq: len(c.ins)})
}

func instrument(rel string, data []byte) ([]byte, int, error) {
	fset := token.NewFileSet()
	f, err := parser.ParseFile(fset, rel, data, parser.ParseComments)
	if err != nil {
		return nil, 0, err
	}
	c := &ctx{fset: fset, src: data, rel: rel}
	ast.Inspect(f, func(n ast.Node) bool {
		switch b := n.(type) {
		case *ast.BlockStmt:
			c.list(b.List)
		case *ast.CaseClause:
			c.list(b.Body)
		case *ast.CommClause:
			c.list(b.Body)
		}
		return true
	})
	if len(c.ins) == 0 {
		return nil, 0, nil
	}
	// import right after the package clause, on the same line
	c.ins = append(c.ins, insertion{off: fset.Position(f.Name.End()).Offset, text: "; import " + schedImport, seq: -1})
	sort.SliceStable(c.ins, func(i, j int) bool {
		if c.ins[i].off != c.ins[j].off {
			return c.ins[i].off > c.ins[j].off
		}
		return c.ins[i].seq > c.ins[j].seq
	})
	res := append([]byte{}, data...)
	for _, in := range c.ins {
		res = append(res[:in.off], append([]byte(in.text), res[in.off:]...)...)
	}
	return res, len(c.ins) - 1, nil
}

// list instruments the direct elements of one statement list.
func (c *ctx) list(stmts []ast.Stmt) {
	for _, st := range stmts {
		at := st.Pos()
		inner := st
		if ls, ok := st.(*ast.LabeledStmt); ok {
			inner = ls.Stmt
			switch inner.(type) {
			case *ast.ForStmt, *ast.RangeStmt, *ast.SwitchStmt, *ast.TypeSwitchStmt, *ast.SelectStmt:
				// keep the label attached (break/continue L); point goes before the label
			default:
				at = inner.Pos()
			}
		}
		c.stmt(at, inner)
	}
}

func (c *ctx) stmt(at token.Pos, st ast.Stmt) {
	switch s := st.(type) {
	case *ast.SelectStmt:
		var chans []string
		hasDefault := false
		for _, cl := range s.Body.List {
			cc := cl.(*ast.CommClause)
			if cc.Comm == nil {
				hasDefault = true
				continue
			}
			if ch := commChan(cc.Comm); ch != nil {
				chans = append(chans, c.text(ch))
			}
		}
		if hasDefault {
			c.add(at, "select-nb", st, "vs.Point(%d); ")
		} else {
			c.add(at, "select", st, "vs.Select(%d, "+strings.Join(chans, ", ")+"); ")
		}
		return
	case *ast.GoStmt:
		if fl, ok := s.Call.Fun.(*ast.FuncLit); ok {
			c.add(at, "go", st, "vs.GoSpawn(%d); ")
			c.add(fl.Body.Lbrace+1, "gostart", st, " vs.GoStart(%d); defer vs.GoEnd(); ")
		}
		return
	case *ast.DeferStmt:
		return
	case *ast.ForStmt:
		if s.Init != nil && hasSync(s.Init) != "" {
			c.add(at, "forinit", st, "vs.Point(%d); ")
		}
		if s.Cond != nil && hasSync(s.Cond) != "" {
			c.add(s.Body.Lbrace+1, "loop", st, " vs.Point(%d); ")
		}
		return
	case *ast.IfStmt:
		if k := firstSync(s.Init, s.Cond); k != "" {
			c.add(at, k, st, "vs.Point(%d); ")
		}
		return
	case *ast.SwitchStmt:
		if k := firstSync(s.Init, s.Tag); k != "" {
			c.add(at, k, st, "vs.Point(%d); ")
		}
		return
	case *ast.CaseClause, *ast.CommClause:
		return
	case *ast.BlockStmt, *ast.RangeStmt, *ast.TypeSwitchStmt, *ast.DeclStmt, *ast.EmptyStmt, *ast.BranchStmt:
		return
	}
	// simple statements: expr, assign, return, send, incdec
	if recv := findRecv(st); recv != nil {
		c.add(at, "recv", st, "vs.Recv(%d, "+c.text(recv.X)+"); ")
		return
	}
	if _, ok := st.(*ast.SendStmt); ok {
		c.add(at, "send", st, "vs.Point(%d); ")
		return
	}
	if fc := findFileClose(st); fc != nil {
		// listener.Close: ln.file.Close() closes the descriptor number kept in ln.fd
		owner := c.text(fc.Fun.(*ast.SelectorExpr).X.(*ast.SelectorExpr).X)
		c.add(at, "closefile", st, "vs.CloseFD(%d, "+owner+".fd); ")
		return
	}
	switch k := hasSync(st); k {
	case "":
	case "chanclose":
		call := findCall(st, "close")
		c.add(at, k, st, "vs.ChanClosed(%d, "+c.text(call.Args[0])+"); ")
	case "spin":
		c.add(at, k, st, "vs.Spin(%d); ")
	case "epollwait":
		call := findCall(st, "EpollWait")
		c.add(at, k, st, "vs.EpollWait(%d, "+c.text(call.Args[0])+", "+c.text(call.Args[2])+"); ")
	case "lock":
		call := findCall(st, "Lock")
		x := c.text(call.Fun.(*ast.SelectorExpr).X)
		c.add(at, k, st, "vs.Lock(%d, "+x+".TryLock, "+x+".Unlock); ")
	case "unlock":
		c.add(at, k, st, "vs.Point(%d); ")
	case "closefd":
		call := findCall(st, "Close")
		c.add(at, k, st, "vs.CloseFD(%d, "+c.text(call.Args[0])+"); ")
	default:
		c.add(at, k, st, "vs.Point(%d); ")
	}
}

func commChan(s ast.Stmt) ast.Expr {
	switch x := s.(type) {
	case *ast.SendStmt:
		return x.Chan
	case *ast.ExprStmt:
		if u, ok := x.X.(*ast.UnaryExpr); ok && u.Op == token.ARROW {
			return u.X
		}
	case *ast.AssignStmt:
		if u, ok := x.Rhs[0].(*ast.UnaryExpr); ok && u.Op == token.ARROW {
			return u.X
		}
	}
	return nil
}

func firstSync(nodes ...ast.Node) string {
	for _, n := range nodes {
		if n == nil || isNilNode(n) {
			continue
		}
		if k := hasSync(n); k != "" {
			if k == "spin" || k == "epollwait" || k == "lock" || k == "unlock" || k == "closefd" {
				return "sync"
			}
			return k
		}
	}
	return ""
}

func isNilNode(n ast.Node) bool {
	switch v := n.(type) {
	case ast.Stmt:
		return v == nil
	case ast.Expr:
		return v == nil
	}
	return false
}

func findRecv(n ast.Node) (r *ast.UnaryExpr) {
	ast.Inspect(n, func(m ast.Node) bool {
		if _, ok := m.(*ast.FuncLit); ok {
			return false
		}
		if u, ok := m.(*ast.UnaryExpr); ok && u.Op == token.ARROW && r == nil {
			r = u
		}
		return r == nil
	})
	return
}

func findCall(n ast.Node, sel string) (r *ast.CallExpr) {
	ast.Inspect(n, func(m ast.Node) bool {
		if _, ok := m.(*ast.FuncLit); ok {
			return false
		}
		if c, ok := m.(*ast.CallExpr); ok && r == nil && calleeName(c) == sel {
			r = c
		}
		return r == nil
	})
	return
}

// findFileClose finds a call of the form X.file.Close().
func findFileClose(n ast.Node) (r *ast.CallExpr) {
	ast.Inspect(n, func(m ast.Node) bool {
		if _, ok := m.(*ast.FuncLit); ok {
			return false
		}
		c, ok := m.(*ast.CallExpr)
		if !ok || r != nil {
			return r == nil
		}
		if sel, ok := c.Fun.(*ast.SelectorExpr); ok && sel.Sel.Name == "Close" && len(c.Args) == 0 {
			if inner, ok := sel.X.(*ast.SelectorExpr); ok && inner.Sel.Name == "file" {
				r = c
			}
		}
		return r == nil
	})
	return
}

func calleeName(c *ast.CallExpr) string {
	switch f := c.Fun.(type) {
	case *ast.Ident:
		return f.Name
	case *ast.SelectorExpr:
		return f.Sel.Name
	}
	return ""
}

var syncMethods = map[string]bool{ // methods of atomic.Value / sync.Map / atomic.IntN
	"Load": true, "Store": true, "CompareAndSwap": true, "Swap": true, "LoadOrStore": true, "Delete": true, "Range": true,
}
var sysFuncs = map[string]bool{ // package-level helpers that enter the kernel
	"EpollCtl": true, "sendmsg": true, "readv": true, "writev": true,
}
var syscallFuncs = map[string]bool{"Read": true, "Write": true, "Accept": true, "Recvmsg": true, "Syscall": true, "RawSyscall": true, "Shutdown": true}

// hasSync classifies the first synchronisation operation found directly in n (not inside nested func literals).
func hasSync(n ast.Node) (kind string) {
	ast.Inspect(n, func(m ast.Node) bool {
		if kind != "" {
			return false
		}
		if _, ok := m.(*ast.FuncLit); ok {
			return false
		}
		c, ok := m.(*ast.CallExpr)
		if !ok {
			return true
		}
		switch f := c.Fun.(type) {
		case *ast.Ident:
			if f.Name == "EpollWait" {
				kind = "epollwait"
			} else if sysFuncs[f.Name] {
				kind = "sys"
			} else if f.Name == "close" {
				kind = "chanclose"
			}
		case *ast.SelectorExpr:
			pkg, _ := f.X.(*ast.Ident)
			switch {
			case pkg != nil && pkg.Name == "atomic":
				kind = "atomic"
			case pkg != nil && pkg.Name == "runtime" && f.Sel.Name == "Gosched":
				kind = "spin"
			case pkg != nil && pkg.Name == "syscall" && f.Sel.Name == "Close":
				kind = "closefd"
			case pkg != nil && pkg.Name == "syscall" && syscallFuncs[f.Sel.Name]:
				kind = "sys"
			case f.Sel.Name == "Lock" && len(c.Args) == 0:
				kind = "lock"
			case f.Sel.Name == "Unlock" && len(c.Args) == 0:
				kind = "unlock"
			case syncMethods[f.Sel.Name]:
				kind = "atomic"
			}
		}
		return kind == ""
	})
	return
}
