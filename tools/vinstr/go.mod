module vinstr

go 1.18
