#!/bin/bash
# usage: tools/seedconfirm.sh <ID> [demo-run-regexp] [pkg]
# Confirms a seeded change in its scratch worktree /tmp/seed/<ID>: suite passes with it; demo fails with it, passes without it.
set -u
id=$1; re=${2:-Demo}; pkg=${3:-.}
d=${SEEDBASE:-/tmp/seed}/$id
export GOFLAGS=-mod=mod GOPROXY=off GOSUMDB=off GOTOOLCHAIN=local
cd $d || exit 2
[ -s patch.diff ] || { echo "no patch.diff"; exit 2; }
git checkout -q -- . 2>/dev/null
mkdir -p ${SEEDBASE:-/tmp/seed}/aside_$id; mv -f zz_demo*_test.go mux/zz_demo*_test.go ${SEEDBASE:-/tmp/seed}/aside_$id/ 2>/dev/null
git apply patch.diff || { echo "patch does not apply"; exit 2; }
echo "--- suite WITH change"; go build ./... && go test -vet=off -count=1 ./... 2>&1 | tail -4
cp ${SEEDBASE:-/tmp/seed}/aside_$id/zz_demo*_test.go $pkg/ 2>/dev/null
echo "--- demo WITH change"; go test -vet=off -count=1 -run "$re" $pkg 2>&1 | grep -v '^NETPOLL\|^20[0-9][0-9]/' | tail -6
git apply -R patch.diff
echo "--- demo WITHOUT change"; go test -vet=off -count=1 -run "$re" $pkg 2>&1 | grep -v '^NETPOLL\|^20[0-9][0-9]/' | tail -3
git apply patch.diff
