#!/bin/bash
# usage: tools/seedtest.sh <patch.diff> <tier> <PROP> [PROP...]
# Applies a seeded change to /repo, runs the named checks, reverts the change. Prints one line per check.
set -u
patch=$1; tier=$2; shift 2
cd /repo || exit 2
if ! git diff --quiet; then echo "refusing: /repo has uncommitted changes"; exit 2; fi
if ! git apply --check "$patch" 2>/dev/null; then echo "patch does not apply: $patch"; exit 2; fi
git apply "$patch"
trap 'git -C /repo checkout -- . ; git -C /repo clean -fdq' EXIT
for p in "$@"; do
  t0=$(date +%s)
  out=$(cd /verif && python3 vcheck.py $p $tier 2>&1)
  rc=$?
  t1=$(date +%s)
  sig=$(echo "$out" | grep -m1 '^  \[' | cut -c1-220)
  echo "RESULT $p $tier rc=$rc $((t1-t0))s $sig"
done
