#!/usr/bin/env python3
"""Driver for the /verif checks of cloudwego/netpoll (property-based testing / fuzzing).

usage: vcheck.py <ID> <quick|thorough> [--replay PATH] [--checks N] [--shards S]

Builds the harness into /repo's packages with -overlay/-modfile (nothing is written
under /repo), runs the property's test in S shard processes, merges the shard
statistics into /verif/evidence/<ID>.json and exits 0 / 1 / 2:
  0  the property held on everything explored (KNOWN-FINDING lines allowed)
  1  at least one "VIOLATION property=<ID> replay=<path>" line was printed
  2  infrastructure problem (build failure, injector failure, harness stall, timeout)
"""
import hashlib
import json
import os
import re
import shutil
import signal
import subprocess
import sys
import time

VERIF = os.path.dirname(os.path.abspath(__file__))
REPO = os.environ.get("VERIF_REPO", "/repo")
WORK = os.path.join(VERIF, "work")
NCPU = os.cpu_count() or 4

sys.path.insert(0, VERIF)
from vprops import PROPS  # noqa: E402  per-property configuration


def log(*a):
    print(*a, flush=True)


def goenv():
    env = dict(os.environ)
    env.update({
        "GOFLAGS": "-mod=mod",
        "GOPROXY": "off",
        "GOSUMDB": "off",
        "GOTOOLCHAIN": "local",
        "GONOSUMDB": "*",
        "GONOSUMCHECK": "1",
        "GOFLAGS_EXTRA": "",
    })
    return env


def sh(cmd, cwd=None, env=None, timeout=None):
    return subprocess.run(cmd, cwd=cwd, env=env, timeout=timeout, stdout=subprocess.PIPE, stderr=subprocess.STDOUT, text=True)


def repo_lang():
    txt = open(os.path.join(REPO, "go.mod")).read()
    m = re.search(r"^go\s+(\d+\.\d+)", txt, re.M)
    return "go" + (m.group(1) if m else "1.15")


def ensure_tool(name):
    """Build /verif/bin/<name> from /verif/tools/<name> when missing or stale."""
    src = os.path.join(VERIF, "tools", name)
    out = os.path.join(VERIF, "bin", name)
    newest = max(os.path.getmtime(os.path.join(src, f)) for f in os.listdir(src))
    if os.path.exists(out) and os.path.getmtime(out) >= newest:
        return out
    os.makedirs(os.path.dirname(out), exist_ok=True)
    env = goenv()
    env["GOFLAGS"] = "-mod=mod"
    r = sh(["go", "build", "-o", out, "."], cwd=src, env=env)
    if r.returncode != 0:
        log(r.stdout)
        log("INFRA: cannot build tool", name)
        sys.exit(2)
    return out


def write_modfile(wdir):
    """go.mod for the check = /repo/go.mod + rapid + replace of bytedance/gopkg by the recording copy."""
    mod = open(os.path.join(REPO, "go.mod")).read()
    mod += "\nrequire pgregory.net/rapid v1.3.0\n"
    mod += "\nreplace github.com/bytedance/gopkg => %s\n" % os.path.join(VERIF, "third_party", "gopkg")
    path = os.path.join(wdir, "go.mod")
    open(path, "w").write(mod)
    shutil.copyfile(os.path.join(REPO, "go.sum"), os.path.join(wdir, "go.sum"))
    return path


def build(prop, cfg, wdir):
    """Returns the path of the test binary built from /repo's current working tree."""
    pkg = cfg.get("pkg", ".")
    variant = cfg.get("variant", "plain")
    hdir = os.path.join(VERIF, "harness", "netpoll" if pkg == "." else pkg)
    overlay = {}
    for f in sorted(os.listdir(hdir)):
        if f.endswith(".go"):
            overlay[os.path.join(REPO, pkg, "zz_verif_" + f)] = os.path.join(hdir, f)
    sdir = os.path.join(VERIF, "harness", "verifsched")
    for f in sorted(os.listdir(sdir)):
        if f.endswith(".go"):
            overlay[os.path.join(REPO, "internal", "verifsched", f)] = os.path.join(sdir, f)
    if variant in ("instr",):
        vinstr = ensure_tool("vinstr")
        idir = os.path.join(wdir, "instr")
        shutil.rmtree(idir, ignore_errors=True)
        os.makedirs(idir)
        r = sh([vinstr, REPO, idir])
        if r.returncode != 0:
            log(r.stdout)
            log("INFRA: schedule-point injector failed")
            sys.exit(2)
        overlay.update(json.load(open(os.path.join(idir, "overlay.instr.json")))["Replace"])
    ov = os.path.join(wdir, "overlay.json")
    json.dump({"Replace": overlay}, open(ov, "w"), indent=1)
    modfile = write_modfile(wdir)
    lang = repo_lang()
    out = os.path.join(wdir, "np.test")
    cmd = ["go", "test", "-c", "-o", out, "-tags", "verif", "-vet=off", "-modfile=" + modfile, "-overlay=" + ov,
           "-gcflags=github.com/cloudwego/netpoll=-lang=" + lang,
           "-gcflags=github.com/cloudwego/netpoll/mux=-lang=" + lang]
    if variant == "race":
        cmd.append("-race")
    if cfg.get("fuzz"):
        cmd += ["-fuzz", "^%s$" % cfg["fuzz"]]  # makes the go command compile with coverage instrumentation for the fuzzer
    cmd.append("./" + pkg if pkg != "." else ".")
    t0 = time.time()
    r = sh(cmd, cwd=REPO, env=goenv(), timeout=1800)
    if r.returncode != 0 or not os.path.exists(out):
        log(r.stdout)
        log("INFRA: build failed (the harness is compiled into /repo's package; a source change that no longer compiles with it is reported as infrastructure, not as a violation)")
        sys.exit(2)
    log("built %s in %.1fs" % (os.path.relpath(out, VERIF), time.time() - t0))
    return out


def known_findings():
    p = os.path.join(VERIF, "known_findings.json")
    if not os.path.exists(p):
        return []
    return json.load(open(p)).get("findings", [])


def shard_seed(seed, shard):
    return 1 + 1000003 * (abs(seed) % 2000000) + shard


def run_part(prop, tier, cfg, wdir, binary, replay, seed, exclude, t0, limit, state, first=True):
    shards = 1 if replay else int(cfg.get("shards", NCPU))
    if cfg.get("fuzz"):
        shards = 1
    checks = int(cfg.get("checks", 1000))
    if cfg.get("fuzz"):
        checks = 1  # one coordinator process, bounded by its fuzztime
    chunk = int(cfg.get("chunk", 0)) or checks
    if replay:
        chunk = checks
    jobs = []
    for s_ in range(shards):
        left, ci = checks, 0
        while left > 0:
            n = min(chunk, left)
            jobs.append({"shard": s_, "chunk": ci, "checks": n, "seed": shard_seed(seed, s_) + 7919 * ci})
            left -= n
            ci += 1
    memlimit = int(cfg.get("mem_gb", 8)) << 30

    def run_job(j):
        sdir = os.path.join(wdir, "shard%d_%d" % (j["shard"], j["chunk"]))
        os.makedirs(sdir)
        j["dir"] = sdir
        env = dict(os.environ)
        env.update({"VERIF_OUT": sdir, "VERIF_TIER": tier, "VERIF_SHARD": str(j["shard"]), "VERIF_SHARDS": str(shards),
                    "VERIF_SEED": str(seed), "VERIF_EXCLUDE": exclude, "VERIF_CHUNK": str(j["chunk"]),
                    "VERIF_REGRESS": os.path.join(VERIF, "replays", "regress") if (first and j["shard"] == 0 and j["chunk"] == 0) else "",
                    "GODEBUG": cfg.get("godebug", "")})
        for k, v in cfg.get("env", {}).items():
            env[k] = str(v)
        if replay:
            env["VERIF_REPLAY"] = replay
        if cfg.get("variant") == "instr":
            env["VERIF_POINTS"] = os.path.join(wdir, "instr", "points.json")
        cmd = [binary, "-test.run", "^%s$" % cfg["test"], "-test.timeout=0", "-test.count=1",
               "-rapid.checks=%d" % j["checks"], "-rapid.seed=%d" % j["seed"], "-rapid.nofailfile",
               "-rapid.shrinktime=%s" % cfg.get("shrinktime", "20s")]
        if cfg.get("steps"):
            cmd.append("-rapid.steps=%d" % cfg["steps"])
        if cfg.get("fuzz"):
            # coverage-guided run of the same property (Go native fuzzing through rapid.MakeFuzz): one coordinator
            # process with NCPU workers for a fixed time; corpus, cache and any crasher stay in the shard directory
            cmd = [binary, "-test.run", "^$", "-test.fuzz", "^%s$" % cfg["fuzz"], "-test.fuzztime", str(cfg.get("fuzztime", "120s")),
                   "-test.fuzzcachedir", os.path.join(sdir, "fuzzcache"), "-test.parallel", str(NCPU), "-test.timeout=0"]
        if cfg.get("verbose"):
            cmd.append("-test.v")

        def pre():
            import resource
            os.setsid()
            if cfg.get("variant") != "race":
                try:
                    resource.setrlimit(resource.RLIMIT_AS, (memlimit, memlimit))
                except Exception:
                    pass
        left = limit - (time.time() - t0)
        if left <= 1 or state["timed_out"]:
            state["timed_out"] = True
            j["rc"] = None
            return j
        if state.get("violation_at") and time.time() - state["violation_at"] > 60:
            j["rc"] = None   # another shard reported a violation a while ago: the verdict is in
            return j
        with open(os.path.join(sdir, "log.txt"), "w") as lf:
            p = subprocess.Popen(cmd, cwd=sdir, env=env, stdout=lf, stderr=subprocess.STDOUT, preexec_fn=pre)
            deadline = time.time() + left

            def kill():
                try:
                    os.killpg(p.pid, signal.SIGQUIT)
                    time.sleep(1.0)
                    os.killpg(p.pid, signal.SIGKILL)
                except Exception:
                    pass
                p.wait()
            while True:
                try:
                    p.wait(timeout=2)
                    break
                except subprocess.TimeoutExpired:
                    pass
                if time.time() > deadline:
                    state["timed_out"] = True
                    kill()
                    break
                if not state.get("violation_at") and os.path.exists(os.path.join(sdir, "violations.json")):
                    state["violation_at"] = time.time()
                # A shard has written a confirmed violation: the other shards get two more minutes (a changed
                # tree can wedge a test process in a system call for ever), then the run ends with that verdict.
                if state.get("violation_at") and time.time() - state["violation_at"] > 120:
                    j["aborted"] = True
                    kill()
                    break
            j["rc"] = p.returncode
        if os.path.exists(os.path.join(sdir, "violations.json")) and not state.get("violation_at"):
            state["violation_at"] = time.time()
        return j

    from concurrent.futures import ThreadPoolExecutor
    with ThreadPoolExecutor(max_workers=shards) as ex:
        done = list(ex.map(run_job, jobs))
    return [((j["shard"] * 1000 + j["chunk"]), j["dir"], j, cfg) for j in done if "dir" in j], shards


def main():
    args = sys.argv[1:]
    if args[:1] == ["--setup"]:
        ensure_tool("vinstr")
        log("setup ok")
        sys.exit(0)
    if len(args) < 2:
        log(__doc__)
        sys.exit(2)
    prop, tier = args[0], args[1]
    if prop not in PROPS or tier not in ("quick", "thorough"):
        log("unknown property/tier")
        sys.exit(2)
    cfg = dict(PROPS[prop])
    cfg.update(cfg.get(tier, {}))
    replay = None
    cli_override = {}
    i = 2
    while i < len(args):
        if args[i] == "--replay":
            replay = os.path.abspath(args[i + 1]); i += 2
        elif args[i] == "--checks":
            cfg["checks"] = int(args[i + 1]); cli_override["checks"] = int(args[i + 1]); i += 2
        elif args[i] == "--shards":
            cfg["shards"] = int(args[i + 1]); cli_override["shards"] = int(args[i + 1]); i += 2
        else:
            log("unknown argument", args[i]); sys.exit(2)
    seed = int(os.environ.get("VERIF_SEED", "1") or "1")
    t0 = time.time()
    wdir = os.path.join(WORK, "%s-%s%s" % (prop, tier if not replay else "replay", os.environ.get("VERIF_WORK_SUFFIX", "")))
    shutil.rmtree(wdir, ignore_errors=True)
    os.makedirs(wdir)
    known = [k for k in known_findings() if k.get("property") == prop and k.get("status") == "known"]
    excl = {k["exclude"] for k in known if k.get("exclude")}
    excl.update(x for x in os.environ.get("VERIF_EXCLUDE_ADD", "").split(",") if x)  # development aid only
    exclude = ",".join(sorted(excl))

    parts = cfg.get("parts") or [{}]
    limit = float(cfg.get("timeout_s", 1500 if tier == "quick" else 14400))
    state = {"timed_out": False}
    procs = []
    total_requested = 0
    njobs = 0
    shards_used = 0
    for pi, part in enumerate(parts):
        pcfg = dict(cfg)
        pcfg.update(part)
        pcfg.update(part.get(tier, {}))
        for k in ("checks", "shards"):
            if k in cli_override:
                pcfg[k] = cli_override[k]
        pdir = os.path.join(wdir, "part%d" % pi) if len(parts) > 1 else wdir
        os.makedirs(pdir, exist_ok=True)
        if replay and len(parts) > 1 and part.get("replay_marker") and part["replay_marker"] not in open(replay).read():
            continue
        if part.get("only_tier") and (part["only_tier"] != tier or replay):
            continue
        binary = build(prop, pcfg, pdir)
        pj, shards = run_part(prop, tier, pcfg, pdir, binary, replay, seed, exclude, t0, limit, state, first=(pi == 0))
        procs.extend(pj)
        total_requested += int(pcfg.get("checks", 1000)) * shards
        njobs += len(pj)
        shards_used = max(shards_used, shards)
    timed_out = state["timed_out"]
    checks, shards, jobs = total_requested, 1, [None] * njobs

    # ---- merge
    evals = 0
    classes, excluded, extra = {}, {}, {}
    hashes = set()
    samples = []
    violations = []
    knownlines = []
    infra = []
    passed_re = re.compile(r"OK, passed (\d+) tests")
    executed = 0
    for s, sdir, j, pcfg in procs:
        class P: pass
        p = P(); p.returncode = j.get("rc")
        if not os.path.exists(os.path.join(sdir, "log.txt")):
            continue
        logtxt = open(os.path.join(sdir, "log.txt"), errors="replace").read()
        m = passed_re.findall(logtxt)
        executed += sum(int(x) for x in m)
        if pcfg.get("fuzz"):
            fm = re.findall(r"fuzz: elapsed: (\S+), execs: (\d+) \(\d+/sec\), new interesting: (\d+) \(total: (\d+)\)", logtxt)
            if fm:
                extra["fuzz_target"] = pcfg["fuzz"]
                extra["fuzz_execs"] = extra.get("fuzz_execs", 0) + int(fm[-1][1])
                extra["fuzz_corpus_entries"] = int(fm[-1][3])
                extra["fuzz_elapsed"] = fm[-1][0]
                evals += int(fm[-1][1])
        sp = os.path.join(sdir, "stats-%s.json" % prop)
        if os.path.exists(sp):
            st = json.load(open(sp))
            evals += st.get("evaluations", 0)
            for k, v in (st.get("classes") or {}).items():
                classes[k] = classes.get(k, 0) + v
            for k, v in (st.get("excluded") or {}).items():
                excluded[k] = excluded.get(k, 0) + v
            for k, v in (st.get("extra") or {}).items():
                if isinstance(v, (int, float)) and not isinstance(v, bool):
                    extra[k] = extra.get(k, 0) + v
                else:
                    extra.setdefault(k, v)
            hashes.update(st.get("nontrivial_hashes") or [])
            if len(samples) < 5:
                samples.extend((st.get("samples") or [])[: max(1, 5 - len(samples))])
        vp = os.path.join(sdir, "violations.json")
        shard_viol = json.load(open(vp)) if os.path.exists(vp) else []
        for v in shard_viol:
            v["shard"] = s
            violations.append(v)
        kp = os.path.join(sdir, "known.jsonl")
        if os.path.exists(kp):
            for line in open(kp):
                knownlines.append(json.loads(line))
        if pcfg.get("variant") == "race" and "WARNING: DATA RACE" in logtxt:
            reports = logtxt.split("WARNING: DATA RACE")[1:]
            real = []
            for rep in reports:
                body = rep.split("==================")[0]
                frames = re.findall(r"^\s+(/\S+\.go):\d+", body, re.M)
                np_frames = [f for f in frames if f.startswith(REPO + "/") and "zz_verif_" not in f]
                if np_frames:
                    real.append(body)
            if real:
                shard_viol = [{"property": prop, "slot": "race", "signature": "data-race", "shard": s,
                               "message": "the race detector reported %d race(s) involving netpoll code; first: %s" % (len(real), " ".join(real[0].split())[:700]),
                               "replay": {"race_reports": [r[:6000] for r in real[:3]]}}]
                violations.extend(shard_viol)
            else:
                infra.append("race reports whose stacks lie only in harness files (see %s)" % os.path.join(sdir, "log.txt"))
        if p.returncode != 0 and not shard_viol and not j.get("aborted"):
            # the process died without recording a violation
            crash = re.search(r"^(panic: .*|fatal error: .*)$", logtxt, re.M)
            # A crash counts for every check when the frame that panicked is netpoll's own code (the first frame
            # below the runtime's in the crashing goroutine); where the configuration says so, any crash counts.
            in_netpoll = False
            if crash:
                tail = logtxt[crash.start():]
                for fr in re.findall(r"^\t(/\S+\.go):\d+", tail, re.M):
                    if "/usr/lib/go" in fr or "/src/runtime/" in fr or "/go/pkg/mod/" in fr or "/opt/veriftools/" in fr:
                        continue
                    in_netpoll = fr.startswith(REPO + "/") and "zz_verif_" not in fr and "/internal/verifsched/" not in fr
                    break
            if crash and (pcfg.get("crash_is_violation") or in_netpoll) and not timed_out and "VERIF-HARNESS" not in logtxt:
                cur = os.path.join(sdir, "current_case.json")
                violations.append({"property": prop, "slot": "crash", "signature": "process-crash", "shard": s,
                                   "message": crash.group(1) + " (process-killing failure; see log)",
                                   "replay": {"log": logtxt[-20000:], "case": json.load(open(cur)) if os.path.exists(cur) else None}})
            else:
                infra.append("shard %d exited with %s without a recorded violation (see %s)" % (s, p.returncode, os.path.join(sdir, "log.txt")))

    wall = time.time() - t0
    os.makedirs(os.path.join(VERIF, "replays"), exist_ok=True)
    os.makedirs(os.path.join(VERIF, "evidence"), exist_ok=True)
    lines = []
    seen_sig = set()
    for v in violations:
        body = json.dumps(v, indent=1, sort_keys=True)
        h = hashlib.sha1(json.dumps(v.get("replay"), sort_keys=True).encode()).hexdigest()[:12]
        rdir = os.path.join(VERIF, "replays") if REPO == "/repo" else os.path.join(WORK, "replays-other-tree")
        os.makedirs(rdir, exist_ok=True)
        path = os.path.join(rdir, "%s-%s.json" % (v.get("property", prop), h))
        open(path, "w").write(body)
        lines.append("VIOLATION property=%s replay=%s" % (v.get("property", prop), path))
        log("  [%s] %s" % (v.get("signature"), (v.get("message") or "")[:600]))
    for k in knownlines:
        key = (k["property"], k["key"])
        if key in seen_sig:
            continue
        seen_sig.add(key)
        log("KNOWN-FINDING: property=%s %s" % (k["property"], k["what"]))
    for l in lines:
        log(l)

    cov = {
        "evaluations": int(evals),
        "distinct_nontrivial": len(hashes),
        "rule": cfg.get("rule", ""),
        "samples": samples[:5] if samples else [],
        "classes": classes,
        "excluded_by_construction": excluded,
        "cases_requested": total_requested,
        "processes": njobs,
        "rapid_ok_cases": executed,
        "shards": shards_used,
        "exhaustive": bool(extra.get("exhaustive", False)) if "exhaustive" in extra else False,
    }
    for k, v in extra.items():
        cov.setdefault(k, v)
    if "space_size" in extra and "enumerated" in extra:
        cov["exhaustive"] = int(extra["enumerated"]) == int(extra["space_size"])
    ev = {
        "property_id": prop,
        "tier": tier,
        "seed": seed,
        "level": "exploration",
        "coverage": cov,
        "assumptions": cfg.get("assumptions", []),
        "wall_s": round(wall, 2),
        "violations": len(violations),
        "known_findings_reproduced": [k["key"] for k in knownlines],
        "technique": cfg.get("technique", ""),
    }
    if not replay and REPO == "/repo":  # a run against another tree (VERIF_REPO, sensitivity work) leaves the evidence alone
        json.dump(ev, open(os.path.join(VERIF, "evidence", "%s.json" % prop), "w"), indent=1)
    log("%s %s: evaluations=%d distinct_nontrivial=%d violations=%d wall=%.1fs" % (prop, tier, evals, len(hashes), len(violations), wall))
    if violations:
        sys.exit(1)
    if timed_out:
        log("INFRA: time limit of %.0fs hit; result inconclusive" % limit)
        sys.exit(2)
    if infra:
        for x in infra:
            log("INFRA:", x)
        sys.exit(2)
    if not replay and (evals < 1 or len(hashes) < 2):
        log("INFRA: the run produced no evidence (evaluations=%d distinct_nontrivial=%d)" % (evals, len(hashes)))
        sys.exit(2)
    sys.exit(0)


if __name__ == "__main__":
    main()
