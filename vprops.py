"""Per-property configuration of the /verif checks (read by vcheck.py)."""

E1_ASSUME = [
    "the buffer pool (bytedance/gopkg/lang/mcache) is replaced by a recording allocator with the same API and capacity rounding that never reuses memory and poisons freed blocks",
    "operation sequences stay inside the documented contract (DESIGN.md section 3.1): no reads between Append and Flush, WriteDirect only left-to-right and never mixed with WriteBinary/WriteString in one flush window, MallocAck(n) with 0 <= n <= MallocLen",
    "sampled, boundary-biased search: absence of a counterexample within the bounds is not a proof",
]

PROPS = {
    "C01": {
        "engine": "E1 bufmachine",
        "level_text": 'A sample of the unbounded space of operation histories, boundary-biased, compared step by step with a reference FIFO model; failures are shrunk to a replayable op list. Right level because the property quantifies over all programs and no finite enumeration exists.',
        "level_note": "trusted: the recording allocator substitutes mcache faithfully (same rounding); the FIFO model encodes nocopy.go doc comments; sequences outside the documented contract are not generated (DESIGN.md 3.1)",
        "design_ref": "DESIGN.md sections 3.1 and 5",
        "test": "TestVerifC01",
        "variant": "plain",
        "technique": "stateful model-based property testing (rapid state machine vs FIFO byte-queue model), shrunk replay files",
        "rule": "rapid state machine over <=3 root LinkBuffers (+Slice children, donors), LinkBufferCap in {8,64,512,4096}, boundary-biased sizes; non-trivial = the program has a read crossing a node boundary AND one of {MallocAck that discards, WriteDirect, Append of a non-empty donor, Slice outliving a parent Release, bookAck(0)}; distinct = op-kind sequence with size classes and node cap",
        "assumptions": E1_ASSUME,
        "steps": 40,
        "quick": {"checks": 12000, "shards": 16},
        "thorough": {"checks": 150000, "shards": 16},
    },
    "C02": {
        "engine": "E1 bufmachine",
        "level_text": 'Every zero-copy result of every generated history is re-checked after every later step against its snapshot and the pool ledger; sampled search, deterministic detection (no reliance on pool reuse luck).',
        "level_note": "trusted: the recording allocator substitutes mcache faithfully (same rounding); the FIFO model encodes nocopy.go doc comments; sequences outside the documented contract are not generated (DESIGN.md 3.1)",
        "design_ref": "DESIGN.md sections 3.1 and 5",
        "test": "TestVerifC02",
        "variant": "plain",
        "parts": [
            {"test": "TestVerifC02", "replay_marker": '"b":'},
            {"test": "TestVerifC02Conc", "steps": 0, "shrinktime": "1ms", "quick": {"checks": 400, "shards": 8}, "thorough": {"checks": 6000, "shards": 16}, "replay_marker": '"conc"'},
        ],
        "technique": "stateful model-based property testing with a recording, poisoning, never-reusing pool allocator; every live zero-copy result re-compared with its snapshot after every later operation; plus generated Slice-reader trees executed on real goroutines (repeated, spin-barrier aligned) against the same stream/ledger oracles",
        "rule": "same generator as C01; every Next/Peek/Until/Bytes/GetBytes result is snapshotted and re-checked (content equal, backing block not freed) after every later step until its reader's Release; non-trivial = some result was held across a later operation that allocated or freed pool memory; distinct = op-kind sequence with size classes and node cap. Second part (other goroutines): a generated tree of Slice readers (1-4 children, nested to depth 2, or a stripe of 8-120 one-node blocks each shared by two readers of two or three goroutines) is read and released on its own goroutines while the parent reads, writes, releases and closes; each case is executed 25 (thorough 120) times; non-trivial there = at least three goroutines.",
        "assumptions": E1_ASSUME,
        "steps": 40,
        "quick": {"checks": 12000, "shards": 16},
        "thorough": {"checks": 150000, "shards": 16},
    },
    "C16": {
        "engine": "E1 bufmachine",
        "level_text": "Generated io.Reader/io.Writer behaviours (every behaviour the io contracts allow: zero-byte reads, data together with an error, transient errors, short writes) against generated adapter call sequences, compared with a source/sink stream model; failures shrink to a replayable script.",
        "level_note": "trusted: the scripted reader/writer stay inside the io.Reader/io.Writer contracts (never more than len(p), error on short write); the model is the position-keyed source stream",
        "design_ref": "DESIGN.md section 5 (C16)",
        "test": "TestVerifC16",
        "variant": "plain",
        "technique": "model-based property testing with scripted io.Reader/io.Writer fault injection (short/zero reads, data+error, short writes) against a stream model",
        "rule": "case = scripted io.Reader (1-8 steps of 0..12000 bytes with nil/io.EOF/custom error, larger steps split by the caller's buffer) x 1-10 zcReader calls; or scripted io.Writer (0-6 writes accepting all/some/none, optional error) x 1-12 zcWriter calls; or NewIOReader/NewIOWriter read/write sequences over a LinkBuffer; non-trivial = the script contains a 0-byte read, a data+error read or a short write; distinct = whole case",
        "assumptions": ["sampled search; sizes up to 12000 bytes; the adapters' 16-round fill limit is exercised only through finite scripts"],
        "quick": {"checks": 6000, "shards": 16},
        "thorough": {"checks": 200000, "shards": 16},
    },
    "C03": {
        "engine": "E1 bufmachine",
        "level_text": 'Every pool Malloc/Free of every generated history is audited by a ledger; caller memory is snapshotted; sampled search over histories.',
        "level_note": "trusted: the recording allocator substitutes mcache faithfully (same rounding); the FIFO model encodes nocopy.go doc comments; sequences outside the documented contract are not generated (DESIGN.md 3.1)",
        "design_ref": "DESIGN.md sections 3.1 and 5",
        "test": "TestVerifC03",
        "variant": "plain",
        "parts": [
            {"test": "TestVerifC03", "replay_marker": '"b":'},
            {"test": "TestVerifC03Conc", "steps": 0, "shrinktime": "1ms", "quick": {"checks": 400, "shards": 8}, "thorough": {"checks": 6000, "shards": 16}, "replay_marker": '"conc"'},
        ],
        "technique": "stateful model-based property testing against a pool ledger (double/interior/foreign free), node-chain aliasing walk and caller-memory snapshots; plus generated Slice-reader trees executed on real goroutines (repeated, spin-barrier aligned) against the same ledger",
        "rule": "same generator as C01; oracle = ledger of pool Malloc/Free (no double, interior or foreign free that the real pool would accept), no linked node or cache referencing a freed block, no node struct in two chains, caller-owned and private memory unchanged; non-trivial = the case freed at least one pool block AND used a caller-memory node, a WriteDirect split or a Slice child; distinct = op-kind sequence with size classes and node cap. Second part (other goroutines): a generated tree of Slice readers (1-4 children, nested to depth 2, or a stripe of 8-120 one-node blocks each shared by two readers of two or three goroutines) is read and released on its own goroutines while the parent reads, writes, releases and closes; each case is executed 25 (thorough 120) times; non-trivial there = at least three goroutines.",
        "assumptions": E1_ASSUME,
        "steps": 40,
        "quick": {"checks": 12000, "shards": 16},
        "thorough": {"checks": 150000, "shards": 16},
    },
}

E2_ASSUME = [
    "schedule points exist where netpoll synchronises (atomics, channels, locks, syscalls, Gosched); they are inserted by tools/vinstr into copies of /repo's current sources at check time; plain memory accesses between two points are not interleaved (that is C19's business)",
    "AF_UNIX socketpairs stand in for TCP; the kernel is real but only ever asked one thing at a time, so a run is a function of (scenario, decision list)",
    "bounded scenarios (<=3 connections, <=2 pollers, <=6 chunks, <=30000 scheduling steps); sampled schedules (uniform walk, few-preemption, PCT-style priorities), not all interleavings",
]

def _e2(test, text, rule, quick=2500, thorough=50000, **kw):
    d = {
        "engine": "E2 simworld",
        "test": test,
        "variant": "instr",
        "technique": "schedule search: build-time schedule-point injection + cooperative scheduler around the real poller loop, rapid-generated scenario and schedule, shrunk decision-list replay",
        "level_text": text,
        "level_note": "trusted: the injector places a yield at every synchronisation step of the current sources; the scheduler serialises all actors so the decision list determines the run; harness callbacks only append to an event log",
        "design_ref": "DESIGN.md sections 3.2 and 5",
        "rule": rule,
        "assumptions": E2_ASSUME,
        "shrinktime": "40s",
        "chunk": 2500,
        "crash_is_violation": False,
        "quick": {"checks": quick, "shards": 16},
        "thorough": {"checks": thorough, "shards": 16},
    }
    d.update(kw)
    return d

PROPS.update({
    "C05": _e2("TestVerifC05", "Generated scenarios x generated schedules over the real connection/poller code; exactly-once, ordering and monotonicity judged on the event log, the close(2) audit and the poller-slot census at exact quiescence.",
               "scenario = callbacks subset x handler behaviour (returns/reads k/closes/panics) x peer script (writes, close/shutdown) x 0-3 closers x detach x a Shutdown-style sweeper (up to 3 passes of 'if isIdle() then Close()', as server.Close does to every tracked connection) x observer x closers/detacher acting as soon as OnPrepare has returned (while netpoll registers the connection) or only after the accept x user Close inside OnDisconnect or inside a close callback; schedule drawn step by step; non-trivial = two of {user close, peer hang-up, handler exit, handler panic, detach} within 8 scheduler steps of each other; distinct = scenario + event sequence"),
    "C06": _e2("TestVerifC06", "Generated input chunkings, handler behaviours and schedules; serial execution and 'no stranded input' are decided exactly at quiescence (no enabled actor), without any wall clock.",
               "scenario = 0-5 peer chunks x handler (all / k per call / lazy / close) x optional OnConnect (which may itself install the handler with SetOnRequest on a server that has none) x optional late SetOnRequest x peer close; non-trivial = a handler ran and a poller delivery or the peer close fell within 6 steps of a handler return, or SetOnRequest raced buffered data; distinct = scenario + event sequence"),
    "C09": _e2("TestVerifC09", "Generated callback subsets, OnConnect durations, data/close timing and schedules; order invariants judged on the event log.",
               "scenario = subset of OnPrepare/OnConnect/OnRequest/OnDisconnect x OnConnect yields/read/close x peer writes/close x optional closer; non-trivial = the peer's write or close fell within 8 steps of registration or of an OnConnect start/end; distinct = scenario + event sequence"),
    "C07": _e2("TestVerifC07", "Generated read sequences, timeout modes, chunkings around the n-th byte, timer expiry as a scheduling choice (the real timer is fired), peer/user close, over generated schedules; outcome judged against the order of data, clock and close events; 'blocked for ever' is exact (reader parked at quiescence).",
               "scenario = 1-4 Reader calls (Next/Peek/Skip/ReadBinary/Slice/Read/ReadByte/Until - Until untimed only, its delimiter taken from the stream) x {no timeout, SetReadTimeout, future deadline, past deadline} x peer chunks around the needed bytes x peer close/shutdown x user close x 0-3 timer firings x init/NewFDConnection; non-trivial = during one call at least two of {data, clock, peer close, user close} happened, or a timed call follows a timed-out call; distinct = scenario + event sequence"),
    "C08": _e2("TestVerifC08", "Generated payloads relative to a tiny SO_SNDBUF, writer API mixes, peer drain scripts, write timeouts fired as scheduling choices, closes and a concurrent Flush or Write (which must be rejected without leaving a byte behind), over generated schedules; 'nil => kernel has every submitted byte' is checked with SIOCINQ on the peer end at the moment Flush returns.",
               "scenario = 1-3 flushes (Malloc+Flush / Write / WriteBinary nocopy / mixed / many pieces / Append of a buffer built elsewhere / Malloc+MallocAck) of 1..12xSO_SNDBUF bytes x {no timeout, write timeout, deadline} x peer drain script x peer close x user close x concurrent pure Flush or concurrent Write of 1-300 own bytes x 0-2 timer firings; non-trivial = the flusher actually parked waiting for the poller; distinct = scenario + number of steps",
               quick=1500, thorough=30000),
    "C10": _e2("TestVerifC10", "Generated open/close/reopen histories with stale calls on the closed connection and generated schedules (including close/reopen between the poller's fetch and dispatch); judged only on the bystander: its data, its callbacks, its liveness.",
               "scenario = A (handler or not, 0-3 peer writes, closed by user or peer) x B opened after A's teardown (poller kicked so that the slot is spliced back: B re-uses A's slot and descriptor number) or before x 1-5 stale calls on A drawn from 18 Connection/Reader/Writer methods; non-trivial = B re-used A's slot and at least one stale call ran after B was open; distinct = scenario + event sequence"),
    "C12": _e2("TestVerifC12", "The space close mode x buffered input x pending output x callbacks x method x repeat x prior timed wait x prior big packet (14592 points) is sampled with generated schedules in the quick tier and enumerated completely in the thorough tier; 'blocks' is exact (the caller is parked at quiescence), panics are recovered and reported.",
               "space = {user, peer, peer-then-user, detach} x {0, 5 bytes buffered} x {no, malloc'd unflushed output} x {no callbacks, OnRequest, OnConnect+OnRequest} x 38 Connection/Reader/Writer calls x {once, twice} x {no read timeout, a read timeout set and one Reader call that really waited before the close} x {no, a 9000-byte packet received at once, read and released long before the close}, each followed by a final Close that must return; every point is non-trivial (the method runs after the close reached quiescence); distinct = point of the space",
               quick=600, thorough=4000),
    "C04": dict(_e2("TestVerifC04", "Two complementary generated searches against one oracle, the position-keyed byte stream: (E2) both directions of a connection on a socketpair with a tiny send buffer under generated schedules, which reaches the flusher/poller and reader/poller hand-off windows exactly; (E3) generated bulk workloads on real threads over TCP4/TCP6/unix with generated socket buffer sizes, writer and reader API mixes, where the kernel chooses the partial-write boundaries.",
               "E2: flush scenario (1-3 flushes of 1..12xSO_SNDBUF through Malloc/Write/WriteBinary/mixed/pieces/Append/Malloc+MallocAck, peer drain script, peer close) or read scenario (1-4 Reader calls up to 9000 bytes, peer chunks, peer close), generated schedule; non-trivial = the flusher parked waiting for the poller / a Reader call parked waiting for a delivery. E3: 1-4 connections x {tcp4,tcp6,unix} x payload up to 1 MiB (8 MiB thorough) each way x write chunking and API mix x reader op mix (Next, Peek+Skip, ReadBinary, Slice, Read, ReadString, Peek+ReadByte+Peek+Skip, ReadByte runs) x one-step handlers x close right after the last Flush x SO_SNDBUF/SO_RCVBUF x reader pace; non-trivial = a payload of at least 4x the send buffer or above 64 KiB. distinct = scenario (+ event sequence for E2)"),
        engine="E2 simworld + E3 livenet",
        technique="generated schedule search over the hand-off windows (E2) plus generated bulk workloads on real sockets (E3), both against a position-keyed stream oracle",
        parts=[
            {"test": "TestVerifC04", "variant": "instr", "chunk": 2500, "quick": {"checks": 1500, "shards": 16}, "thorough": {"checks": 20000, "shards": 16}, "replay_marker": "decisions"},
            {"test": "TestVerifC04Live", "variant": "plain", "chunk": 0, "crash_is_violation": True, "shrinktime": "5s", "quick": {"checks": 12, "shards": 8}, "thorough": {"checks": 150, "shards": 12}, "replay_marker": "network"},
        ],
        assumptions=E2_ASSUME + ["E3: interleavings and partial-write boundaries are the OS's choice; a stall is reported only after 30 s without a single byte of progress; a failing scenario is re-run 10 times to state its reproduction rate"]),
    "C17": _e2("TestVerifC17", "Generated adders, bursts, Close position and schedules over the real ShardQueue (its atomics, spin locks and worker task are schedule points); exactly-once and 'flushed without a further Add' are judged at exact quiescence.",
               "scenario = 1-4 shards x 1-4 adder goroutines x 1-5 Add calls of 1-3 getters x optional Close after k Adds returned x 0-2 Adds after Close returned; non-trivial = at least two worker tasks ran, or an Add from one of several adders raced the first worker; distinct = scenario + event sequence + number of steps",
               quick=4000, thorough=80000, pkg="mux"),
    "C11": _e2("TestVerifC11", "Harness FDOperators with recording callbacks on a real poller whose Wait loop is an actor; generated peer scripts make the kernel itself produce IN/OUT/RDHUP/HUP/ERR combinations (no synthetic flag sets); per-descriptor callback histories are judged at exact quiescence.",
               "scenario = 1-5 descriptors (+120-140 idle ones in 5% of the cases, crossing the 128-event array growth) x Inputs buffer size x optional output stream through Outputs/OutputAck with a 2 KiB socket buffer x peer script (writes, reads, shutdown, close, close with unread data) x user detach x Trigger x Close; non-trivial = at least two descriptors and one of them got data and hang-up; distinct = scenario + event sequence",
               quick=1500, thorough=40000),
    "C13": dict(_e2("TestVerifC13", "Two generated searches: (E2) the real server on a unix listener on one poller with accepted connections on a second poller, clients connecting/writing/closing at scheduler-chosen moments - the tracking map is compared with the set of active connections at exact quiescence; (E3) generated mixes of idle, busy and closing clients around Shutdown with generated handler durations and context deadlines on real threads - Shutdown/Serve results, idle-closed/busy-kept, descriptor census.",
               "E2: 1-3 clients x {connect, connect+write, connect+close, connect+write+close} x OnConnect or not x optionally a user goroutine calling the server's Close (Shutdown) at a scheduler-chosen moment, two pollers, generated schedule; non-trivial = a client's close fell within 25 steps of its connection's OnPrepare. E3: 0-4 idle, 0-3 busy (handler blocked until released), 0-3 closing clients, 0-2 connections whose handler has returned while a server goroutine still sends a 2-12 MiB response the client has not read x Shutdown deadline before/after the handlers' release x tcp4/unix, or an accept-fails-with-EMFILE stretch of 20/150/700/2300 ms with clients queued meanwhile; non-trivial = at least one busy and one idle connection at Shutdown, or a close racing the accept; distinct = scenario (+ event sequence for E2)"),
        engine="E2 simworld + E3 livenet",
        parts=[
            {"test": "TestVerifC13", "variant": "instr", "chunk": 2500, "quick": {"checks": 1500, "shards": 16}, "thorough": {"checks": 25000, "shards": 16}, "replay_marker": "decisions"},
            {"test": "TestVerifC13Live", "variant": "plain", "chunk": 0, "crash_is_violation": True, "shrinktime": "10s", "quick": {"checks": 8, "shards": 8}, "thorough": {"checks": 100, "shards": 12}, "replay_marker": "deadline_ms"},
        ]),
})

def _e3(test, text, rule, quick, thorough, shards_q=8, shards_t=12, **kw):
    d = {
        "engine": "E3 livenet",
        "test": test,
        "variant": "plain",
        "technique": "property-based testing with generated workloads on real threads, pollers and sockets against schedule-independent oracles (results, streams, descriptor and poller-slot censuses)",
        "level_text": text,
        "level_note": "trusted: /proc/self/fd and the poller free lists as censuses; loopback kernel behaviour (refused, SYN drop with a full accept queue, RST); timing is the OS's choice, so absence of a failure is a sample, and a failure is re-run to state its rate",
        "design_ref": "DESIGN.md sections 3.3 and 5",
        "rule": rule,
        "assumptions": ["interleavings are chosen by the OS scheduler (not controlled); waiting is bounded by a 30 s no-progress rule, never by a fixed sleep"],
        "crash_is_violation": True,
        "shrinktime": "30s",
        "quick": {"checks": quick, "shards": shards_q},
        "thorough": {"checks": thorough, "shards": shards_t},
    }
    d.update(kw)
    return d

PROPS.update({
    "C14": _e3("TestVerifC14", "Generated dial targets (accepting TCP4/TCP6/unix, refused, SYN-dropping listener with a full accept queue, accept-and-reset), timeouts from 50 us to 300 ms bracketing the connect latency, 1-32 concurrent dials, sweeps of 50-1000 sequential dials per goroutine with timeouts from 10% to 200% of a base, and 12000 dials to one refusing even port (TCP self-connect); results, Timeout(), echo round trip and descriptor/poller-slot censuses are checked.",
               "scenario = target kind x timeout in {50us..300ms} x concurrency in {1,2,8,32} x optional timeout sweep / refused-port sweep; non-trivial = at least one dial failed or timed out; distinct = scenario + number of failed/timed-out dials",
               quick=25, thorough=600),
    "C15": _e3("TestVerifC15", "Generated lifecycles of connections (dialled, accepted, adopted with NewFDConnection, detached), listeners (CreateListener/ConvertListener), failed dials and private poller pools; every close(2) netpoll issues is audited BEFORE it executes (is the number open? is it a harness-owned victim parked on a number netpoll has already closed?) and the descriptor census must return to its baseline.",
               "scenario = 1-6 lifecycle steps out of 12 kinds (dial tcp/unix, refused dial, timed-out dial, dial whose poller registration fails, server tcp/unix with 3 clients and Shutdown, NewFDConnection, Detach, private manager grow/shrink/Close, CreateListener, 4 connections closed twice concurrently); non-trivial = the scenario has an error path, a server or concurrent closes; distinct = step sequence",
               quick=20, thorough=500, variant="instr",
               level_note="trusted: the close(2) audit points are inserted by tools/vinstr before every syscall.Close / file.Close of the current sources; F_DUPFD parks victims atomically on freed numbers; /proc/self/fd census"),
    "C18": _e3("TestVerifC18", "Generated sequences of SetNumLoops/SetLoadBalance applied between phases on private managers, each phase with 1-32 goroutines calling Pick concurrently (the first phase races the lazy initialisation); pool size, membership, liveness of every poller (an operator registered on it must receive an event), descriptor census after shrink and Close, round-robin spread.",
               "scenario = initial size 1-5 x 1-4 phases of (loops 1-6, RoundRobin/Random, 1/2/8/32 goroutines x 1-40 Picks, then 0/1/3 Trigger calls on every poller so that the next shrink or Close meets an unconsumed wake-up); non-trivial = at least one phase with concurrent Picks; distinct = scenario",
               quick=12, thorough=300),
    "C19": dict(_e3("TestVerifC19", "The E3 workloads (bulk streams both ways, Shutdown during traffic, concurrent dials incl. failing ones, pool reconfiguration, descriptor lifecycles) plus a close race (one reader, one writer, 1-4 closers on both ends) and a writer stuck in a partial flush closed from other goroutines (with and without a slow user close callback), Slice readers of one buffer read and released on several goroutines while the parent reads, writes, releases and closes, and (second binary, package mux) a ShardQueue on a real connection with 2-8 concurrent adders, nil getters, Close during the Adds and a peer that goes away, run under the Go race detector inside the documented concurrency contract; every race report is a violation.",
               "workload drawn from {bulk, shutdown, dial, pool, closerace, blockedwrite, dialhold, fdsteps, slices, shardqueue} with generated parameters; every case is non-trivial (several goroutines of different roles - poller, handler task, user reader/writer, closer - touch the same connection or pool); distinct = workload kind + parameters",
               quick=20, thorough=300, variant="race", crash_is_violation=True, timeout_s=3000,
               technique="generated concurrent workloads under the Go race detector (oracle: zero race reports outside the harness)",
               env={"GORACE": "halt_on_error=0"}),
        parts=[
            {"test": "TestVerifC19", "variant": "race", "pkg": ".", "quick": {"checks": 20, "shards": 8}, "thorough": {"checks": 300, "shards": 12}},
            {"test": "TestVerifC19Mux", "variant": "race", "pkg": "mux", "quick": {"checks": 15, "shards": 4}, "thorough": {"checks": 300, "shards": 6}},
        ]),
})

ENGINES = [
    {"name": "E1 bufmachine", "path": "harness/netpoll/e1_*_test.go", "serves_properties": ["C01", "C02", "C03", "C16"], "kind_free_text": "rapid state machine over LinkBuffer against a FIFO byte-queue model with a recording pool allocator"},
    {"name": "E3 livenet", "path": "harness/netpoll/e3_*_test.go", "serves_properties": ["C04", "C13", "C14", "C15", "C18", "C19"], "kind_free_text": "rapid-generated workloads on real threads, real pollers and real sockets with schedule-independent oracles (streams, censuses, close(2) audit)"},
    {"name": "E2 simworld", "path": "harness/netpoll/e2_*_test.go + harness/verifsched + tools/vinstr", "serves_properties": ["C04", "C05", "C06", "C07", "C08", "C09", "C10", "C13", "C17", "C18"], "kind_free_text": "generated schedules: schedule points injected at build time, cooperative scheduler around the real poller loop on socketpairs"},
]

# every listed property is claimed
NOT_APPLICABLE = []
