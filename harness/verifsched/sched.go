// Package verifsched is the runtime behind the injected schedule points (prototype).
// With no scheduler installed every hook is a cheap no-op.
package verifsched

import (
	"bytes"
	"fmt"
	"reflect"
	"runtime"
	"strconv"
	"sync"
	"sync/atomic"
	"golang.org/x/sys/unix"
	"time"
)

type Actor struct {
	ID     int
	Name   string
	Daemon bool

	resume  chan struct{}
	done    bool
	parked  bool
	point   int
	kind    string
	enabled func() bool
	spun    bool // parked at a spin point: wait for somebody else to move first
	Chans   []interface{}
}

type Step struct {
	Actor int
	Point int
	Kind  string
}

type Sched struct {
	mu      sync.Mutex
	actors  []*Actor
	byGoid  map[int64]*Actor
	events  chan struct{}
	pending int32 // announced goroutines that have not parked yet
	Trace   []Step
	closed  map[uintptr]bool
	held    map[uintptr]*Actor
	// Choose picks among the enabled actors (cur first when enabled).
	Choose func(enabled []*Actor, cur *Actor) int
	// Idle is consulted when nothing is enabled; it may change the world (fire a timer, let the peer act) and return true.
	Idle func(s *Sched) bool
	CloseAudit func(point int, fd int)
	cur  *Actor
	aborting int32
	Crashes  []string // panics that escaped a goroutine started by netpoll itself (would kill the process)
}

// Abort releases every parked actor; each one leaves through runtime.Goexit and all hooks become no-ops.
func (s *Sched) Abort() {
	atomic.StoreInt32(&s.aborting, 1)
	if cur() == s {
		Uninstall()
	}
	s.mu.Lock()
	var ps []*Actor
	for _, a := range s.actors {
		if a.parked && !a.done {
			a.parked = false
			ps = append(ps, a)
		}
	}
	s.mu.Unlock()
	for _, a := range ps {
		a.resume <- struct{}{}
	}
}

var active atomic.Value // *Sched

func Install(s *Sched) { active.Store(s) }
func Uninstall()       { active.Store((*Sched)(nil)) }
func cur() *Sched {
	s, _ := active.Load().(*Sched)
	if s != nil && atomic.LoadInt32(&s.aborting) != 0 {
		return nil
	}
	return s
}

func New() *Sched {
	return &Sched{byGoid: map[int64]*Actor{}, events: make(chan struct{}, 1024), closed: map[uintptr]bool{}, held: map[uintptr]*Actor{}}
}

func goid() int64 {
	var buf [64]byte
	b := buf[:runtime.Stack(buf[:], false)]
	b = b[len("goroutine "):]
	b = b[:bytes.IndexByte(b, ' ')]
	n, _ := strconv.ParseInt(string(b), 10, 64)
	return n
}

func (s *Sched) self() *Actor {
	g := goid()
	s.mu.Lock()
	a := s.byGoid[g]
	s.mu.Unlock()
	return a
}

// Go starts fn as a controlled actor. May be called from the test goroutine or from an actor.
func (s *Sched) Go(name string, daemon bool, fn func()) *Actor {
	a := &Actor{Name: name, Daemon: daemon, resume: make(chan struct{})}
	s.mu.Lock()
	a.ID = len(s.actors)
	s.actors = append(s.actors, a)
	s.mu.Unlock()
	atomic.AddInt32(&s.pending, 1)
	go func() {
		s.mu.Lock()
		s.byGoid[goid()] = a
		s.mu.Unlock()
		defer s.finish(a)
		s.park(a, -1, "start", nil)
		fn()
	}()
	return a
}

func (s *Sched) finish(a *Actor) {
	s.mu.Lock()
	a.done = true
	s.mu.Unlock()
	select {
	case s.events <- struct{}{}:
	default:
	}
}

func (s *Sched) park(a *Actor, point int, kind string, enabled func() bool) {
	s.mu.Lock()
	a.parked, a.point, a.kind, a.enabled = true, point, kind, enabled
	a.spun = kind == "spin"
	s.mu.Unlock()
	if kind == "start" {
		atomic.AddInt32(&s.pending, -1)
	}
	s.events <- struct{}{}
	<-a.resume
	if atomic.LoadInt32(&s.aborting) != 0 {
		runtime.Goexit()
	}
}

// Run drives the actors until all non-daemon actors are finished (ok) or nothing can move (deadlock).
func (s *Sched) Run(maxSteps int) (ok bool, why string) {
	spinOnly := 0
	for steps := 0; ; steps++ {
		// wait until every started goroutine is parked or done
		for {
			s.mu.Lock()
			busy := 0
			for _, a := range s.actors {
				if !a.done && !a.parked {
					busy++
				}
			}
			s.mu.Unlock()
			if busy == 0 && atomic.LoadInt32(&s.pending) == 0 {
				break
			}
			select {
			case <-s.events:
			case <-time.After(10 * time.Second):
				buf := make([]byte, 1<<20)
				return false, "HARNESS-STUCK\n" + string(buf[:runtime.Stack(buf, true)])
			}
		}
		if steps >= maxSteps {
			return false, "step budget"
		}
		var en []*Actor
		allDone := true
		s.mu.Lock()
		for _, a := range s.actors {
			if a.done {
				continue
			}
			if !a.Daemon {
				allDone = false
			}
			if a.spun && a != s.cur {
				a.spun = false
			}
			if a.spun {
				continue
			}
			if a.enabled == nil || a.enabled() {
				en = append(en, a)
			}
		}
		s.mu.Unlock()
		if len(en) == 0 {
			// nothing but spinners: let them retry, but only a bounded number of times in a row
			s.mu.Lock()
			for _, a := range s.actors {
				if !a.done && a.spun && spinOnly < 64 {
					a.spun = false
					en = append(en, a)
				}
			}
			s.mu.Unlock()
			spinOnly++
		} else {
			spinOnly = 0
		}
		if len(en) == 0 {
			if s.Idle != nil && s.Idle(s) {
				continue
			}
			if allDone {
				return true, ""
			}
			return false, "deadlock: " + s.Describe()
		}
		// current actor first
		for i, a := range en {
			if a == s.cur {
				en[0], en[i] = en[i], en[0]
			}
		}
		pick := en[0]
		if len(en) > 1 && s.Choose != nil {
			pick = en[s.Choose(en, s.cur)]
		}
		s.mu.Lock()
		pick.parked = false
		s.Trace = append(s.Trace, Step{pick.ID, pick.point, pick.kind})
		s.mu.Unlock()
		s.cur = pick
		pick.resume <- struct{}{}
	}
}

// quiet: only daemons are enabled and they are all sitting in an idle wait.
func (s *Sched) quiet(en []*Actor) bool {
	for _, a := range en {
		if a.kind != "epollwait" {
			return false
		}
	}
	return false
}

func (s *Sched) Describe() string {
	s.mu.Lock()
	defer s.mu.Unlock()
	var b bytes.Buffer
	for _, a := range s.actors {
		fmt.Fprintf(&b, "[%d %s done=%v parked=%v kind=%s point=%d] ", a.ID, a.Name, a.done, a.parked, a.kind, a.point)
	}
	return b.String()
}

func (s *Sched) Actors() []*Actor { return s.actors }
func (a *Actor) Parked() (bool, string, int) { return a.parked && !a.done, a.kind, a.point }
func (a *Actor) Done() bool { return a.done }

// ---- hooks called by injected code ----

func Point(id int) {
	if s := cur(); s != nil {
		if a := s.self(); a != nil {
			s.park(a, id, "point", nil)
		}
	}
}

func Spin(id int) {
	if s := cur(); s != nil {
		if a := s.self(); a != nil {
			s.park(a, id, "spin", nil)
		}
	}
}

func chanReady(s *Sched, ch interface{}) bool {
	v := reflect.ValueOf(ch)
	if v.Len() > 0 {
		return true
	}
	return s.closed[v.Pointer()]
}

func Recv(id int, ch interface{}) {
	if s := cur(); s != nil {
		if a := s.self(); a != nil {
			a.Chans = []interface{}{ch}
			s.park(a, id, "recv", func() bool { return chanReady(s, ch) })
			a.Chans = nil
		}
	}
}

func Select(id int, chans ...interface{}) {
	if s := cur(); s != nil {
		if a := s.self(); a != nil {
			a.Chans = chans
			s.park(a, id, "select", func() bool {
				for _, ch := range chans {
					if chanReady(s, ch) {
						return true
					}
				}
				return false
			})
			a.Chans = nil
		}
	}
}

func ChanClosed(id int, ch interface{}) {
	if s := cur(); s != nil {
		s.mu.Lock()
		s.closed[reflect.ValueOf(ch).Pointer()] = true
		s.mu.Unlock()
	}
}

func Lock(id int, try func() bool, unlock func()) {
	if s := cur(); s != nil {
		if a := s.self(); a != nil {
			s.park(a, id, "lock", func() bool {
				if try() {
					unlock()
					return true
				}
				return false
			})
		}
	}
}

func pollReadable(fd int) bool {
	fds := []unix.PollFd{{Fd: int32(fd), Events: unix.POLLIN}}
	n, err := unix.Poll(fds, 0)
	return err == nil && n > 0 && fds[0].Revents&unix.POLLIN != 0
}

func EpollWait(id int, epfd int, msec int) {
	if s := cur(); s != nil {
		if a := s.self(); a != nil {
			s.park(a, id, "epollwait", func() bool { return msec == 0 || pollReadable(epfd) })
		}
	}
}

func CloseFD(id int, fd int) {
	if s := cur(); s != nil {
		if s.CloseAudit != nil {
			s.CloseAudit(id, fd)
		}
		if a := s.self(); a != nil {
			s.park(a, id, "closefd", nil)
		}
	}
}

func GoSpawn(id int) {
	if s := cur(); s != nil {
		if a := s.self(); a != nil {
			atomic.AddInt32(&s.pending, 1)
		}
	}
}

var spawnedBy sync.Map

func GoStart(id int) {
	if s := cur(); s != nil {
		// only goroutines announced by a controlled parent are adopted; we cannot know the parent here,
		// so adopt iff an announcement is outstanding.
		if atomic.LoadInt32(&s.pending) > 0 {
			a := &Actor{Name: fmt.Sprintf("go@%d", id), resume: make(chan struct{})}
			s.mu.Lock()
			a.ID = len(s.actors)
			s.actors = append(s.actors, a)
			s.byGoid[goid()] = a
			s.mu.Unlock()
			s.park(a, id, "start", nil)
		}
	}
}

func GoEnd() {
	p := recover()
	if s := cur(); s != nil {
		if a := s.self(); a != nil {
			if p != nil {
				buf := make([]byte, 4096)
				s.mu.Lock()
				s.Crashes = append(s.Crashes, fmt.Sprintf("%v\n%s", p, buf[:runtime.Stack(buf, false)]))
				s.mu.Unlock()
			}
			s.finish(a)
			return
		}
	}
	if p != nil {
		panic(p)
	}
}

// WaitFor parks the calling actor until pred holds (evaluated by the scheduler while everybody is parked).
func WaitFor(id int, pred func() bool) {
	if s := cur(); s != nil {
		if a := s.self(); a != nil {
			s.park(a, id, "wait", pred)
		}
	}
}

// InSelectOn reports whether the actor is parked in a blocking select/recv that includes ch.
func (a *Actor) InSelectOn(ch interface{}) bool {
	if !a.parked || a.done || (a.kind != "select" && a.kind != "recv") {
		return false
	}
	for _, c := range a.Chans {
		if reflect.ValueOf(c).Pointer() == reflect.ValueOf(ch).Pointer() {
			return true
		}
	}
	return false
}
