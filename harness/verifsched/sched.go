// Package verifsched is the runtime behind the schedule points that /verif's
// injector (tools/vinstr) inserts into copies of netpoll's sources at check time.
//
// With no scheduler installed every hook is one atomic load and a return, so an
// instrumented binary behaves like the original. With a scheduler installed, every
// goroutine registered as an actor parks at each hook and exactly one actor runs at
// a time; which one is the decision of Sched.Choose (a rapid draw in the checks).
//
// This package is overlaid into /repo/internal/verifsched at build time; it is not
// part of the repository.
package verifsched

import (
	"bytes"
	"fmt"
	"reflect"
	"runtime"
	"strconv"
	"sync"
	"sync/atomic"
	"time"

	"golang.org/x/sys/unix"
)

// Actor is one controlled goroutine.
type Actor struct {
	ID     int
	Name   string
	Daemon bool // may stay parked for ever without that being a deadlock (poller loop, clock)

	resume  chan struct{}
	done    bool
	parked  bool
	point   int
	kind    string
	enabled func() bool
	spun    bool
	chans   []interface{}
	steps   int
}

// Step is one scheduling decision.
type Step struct {
	Actor int    `json:"a"`
	Point int    `json:"p"`
	Kind  string `json:"k,omitempty"`
}

// Sched is a cooperative scheduler for one test case.
type Sched struct {
	mu       sync.Mutex
	actors   []*Actor
	byGoid   map[int64]*Actor
	notify   chan struct{}
	pending  int32
	closed   map[uintptr]bool
	cur      *Actor
	aborting int32

	// Trace is the list of decisions taken so far.
	Trace []Step
	// Choose picks among the enabled actors; enabled[0] is the actor that ran last when it is enabled.
	Choose func(enabled []*Actor, cur *Actor) int
	// OnStep is called (on the scheduler's goroutine, everybody parked) before an actor is resumed.
	OnStep func(step int, a *Actor)
	// Crashes collects panics that escaped goroutines netpoll starts itself.
	Crashes []string
	// StallTimeout bounds how long Run waits for a running actor to reach its next hook.
	StallTimeout time.Duration
}

var active atomic.Value // *Sched

// Install makes s the scheduler consulted by the hooks.
func Install(s *Sched) { active.Store(s) }

// Uninstall turns all hooks back into no-ops.
func Uninstall() { active.Store((*Sched)(nil)) }

func cur() *Sched {
	s, _ := active.Load().(*Sched)
	if s != nil && atomic.LoadInt32(&s.aborting) != 0 {
		return nil
	}
	return s
}

// Active reports whether a scheduler is installed.
func Active() bool { return cur() != nil }

// New returns an empty scheduler.
func New() *Sched {
	return &Sched{byGoid: map[int64]*Actor{}, notify: make(chan struct{}, 1), closed: map[uintptr]bool{}, StallTimeout: 30 * time.Second}
}

func goid() int64 {
	var buf [64]byte
	b := buf[:runtime.Stack(buf[:], false)]
	b = b[len("goroutine "):]
	b = b[:bytes.IndexByte(b, ' ')]
	n, _ := strconv.ParseInt(string(b), 10, 64)
	return n
}

func (s *Sched) self() *Actor {
	g := goid()
	s.mu.Lock()
	a := s.byGoid[g]
	s.mu.Unlock()
	return a
}

// Self returns the actor of the calling goroutine, or nil.
func (s *Sched) Self() *Actor { return s.self() }

func (s *Sched) wake() {
	select {
	case s.notify <- struct{}{}:
	default:
	}
}

// Go starts fn as a controlled actor. It may be called from the test goroutine or from an actor.
func (s *Sched) Go(name string, daemon bool, fn func()) *Actor {
	a := &Actor{Name: name, Daemon: daemon, resume: make(chan struct{})}
	s.mu.Lock()
	a.ID = len(s.actors)
	s.actors = append(s.actors, a)
	s.mu.Unlock()
	atomic.AddInt32(&s.pending, 1)
	go func() {
		s.mu.Lock()
		s.byGoid[goid()] = a
		s.mu.Unlock()
		defer s.finish(a)
		s.park(a, -1, "start", nil)
		fn()
	}()
	return a
}

func (s *Sched) finish(a *Actor) {
	s.mu.Lock()
	a.done = true
	a.parked = false
	s.mu.Unlock()
	s.wake()
}

func (s *Sched) park(a *Actor, point int, kind string, enabled func() bool) {
	s.mu.Lock()
	a.parked, a.point, a.kind, a.enabled = true, point, kind, enabled
	a.spun = kind == "spin"
	s.mu.Unlock()
	if kind == "start" {
		atomic.AddInt32(&s.pending, -1)
	}
	s.wake()
	<-a.resume
}

// Result of Run.
type Result struct {
	// Quiescent: no actor is enabled. Parked lists the non-daemon actors that are still parked (lost wake-up / deadlock candidates).
	Quiescent bool
	Parked    []*Actor
	// Budget: the step budget ran out (livelock candidate).
	Budget bool
	// Stalled: an actor did not reach a hook within StallTimeout (harness problem, never a violation).
	Stalled string
	Steps   int
}

// Run drives the actors until nothing is enabled or maxSteps decisions were taken.
func (s *Sched) Run(maxSteps int) Result {
	spinOnly := 0
	for steps := 0; ; steps++ {
		// wait until every started goroutine is parked or done
		deadline := time.Now().Add(s.StallTimeout)
		for {
			s.mu.Lock()
			busy := 0
			for _, a := range s.actors {
				if !a.done && !a.parked {
					busy++
				}
			}
			s.mu.Unlock()
			if busy == 0 && atomic.LoadInt32(&s.pending) == 0 {
				break
			}
			select {
			case <-s.notify:
			case <-time.After(50 * time.Millisecond):
				if time.Now().After(deadline) {
					buf := make([]byte, 1<<20)
					return Result{Stalled: "VERIF-HARNESS stall\n" + string(buf[:runtime.Stack(buf, true)]), Steps: steps}
				}
			}
		}
		if steps >= maxSteps {
			return Result{Budget: true, Steps: steps}
		}
		var en []*Actor
		s.mu.Lock()
		acts := append([]*Actor(nil), s.actors...)
		s.mu.Unlock()
		for _, a := range acts {
			if a.done {
				continue
			}
			if a.spun && a != s.cur {
				a.spun = false
			}
			if a.spun {
				continue
			}
			if a.enabled == nil || safeEnabled(a.enabled) {
				en = append(en, a)
			}
		}
		if len(en) == 0 {
			// nothing but spinners: let them retry, a bounded number of times in a row
			for _, a := range acts {
				if !a.done && a.spun && spinOnly < 64 {
					a.spun = false
					en = append(en, a)
				}
			}
			spinOnly++
		} else {
			spinOnly = 0
		}
		if len(en) == 0 {
			res := Result{Quiescent: true, Steps: steps}
			for _, a := range acts {
				if !a.done && !a.Daemon {
					res.Parked = append(res.Parked, a)
				}
			}
			return res
		}
		for i, a := range en {
			if a == s.cur {
				en[0], en[i] = en[i], en[0]
			}
		}
		pick := en[0]
		if len(en) > 1 && s.Choose != nil {
			i := s.Choose(en, s.cur)
			if i < 0 || i >= len(en) {
				i = 0
			}
			pick = en[i]
		}
		if s.OnStep != nil {
			s.OnStep(len(s.Trace), pick)
		}
		s.mu.Lock()
		pick.parked = false
		pick.steps++
		s.Trace = append(s.Trace, Step{pick.ID, pick.point, pick.kind})
		s.mu.Unlock()
		s.cur = pick
		pick.resume <- struct{}{}
	}
}

func safeEnabled(f func() bool) (ok bool) {
	defer func() {
		if recover() != nil {
			ok = false
		}
	}()
	return f()
}

// Abort ends the case: all hooks become no-ops and the parked actors are left parked for ever.
// They must not be resumed: runtime.Goexit (or a panic) would run netpoll's deferred functions
// (the handler task's panic path closes the connection), i.e. netpoll code touching descriptor
// numbers that the next case is already re-using. The leaked goroutines are bounded by running
// the cases of one shard in several short-lived processes (vcheck.py, "chunk").
func (s *Sched) Abort() {
	atomic.StoreInt32(&s.aborting, 1)
	if c, _ := active.Load().(*Sched); c == s {
		Uninstall()
	}
}

// StepCount is the number of decisions taken so far.
func (s *Sched) StepCount() int {
	s.mu.Lock()
	defer s.mu.Unlock()
	return len(s.Trace)
}

// Describe lists all actors and where they are.
func (s *Sched) Describe() string {
	s.mu.Lock()
	defer s.mu.Unlock()
	var b bytes.Buffer
	for _, a := range s.actors {
		fmt.Fprintf(&b, "[%d %s done=%v parked=%v kind=%s point=%d] ", a.ID, a.Name, a.done, a.parked, a.kind, a.point)
	}
	return b.String()
}

// Actors returns the actors created so far.
func (s *Sched) Actors() []*Actor {
	s.mu.Lock()
	defer s.mu.Unlock()
	return append([]*Actor(nil), s.actors...)
}

// Parked reports whether the actor is parked, and at which kind of hook and point.
func (a *Actor) Parked() (bool, string, int) { return a.parked && !a.done, a.kind, a.point }

// Done reports whether the actor's function returned.
func (a *Actor) Done() bool { return a.done }

// Point is the hook id the actor is parked at.
func (a *Actor) Point() int { return a.point }

// Kind is the hook kind the actor is parked at.
func (a *Actor) Kind() string { return a.kind }

// InSelectOn reports whether the actor is parked in a blocking select/recv that includes ch.
func (a *Actor) InSelectOn(ch interface{}) bool {
	if !a.parked || a.done || (a.kind != "select" && a.kind != "recv") {
		return false
	}
	want := reflect.ValueOf(ch).Pointer()
	for _, c := range a.chans {
		if reflect.ValueOf(c).Pointer() == want {
			return true
		}
	}
	return false
}

// Blocked reports whether the actor is parked in a blocking receive/select with nothing ready.
func (a *Actor) Blocked() bool {
	if !a.parked || a.done || (a.kind != "select" && a.kind != "recv") {
		return false
	}
	return a.enabled != nil && !safeEnabled(a.enabled)
}

// ---- hooks called by injected code ----

// Point is a plain schedule point.
func Point(id int) {
	if s := cur(); s != nil {
		if a := s.self(); a != nil {
			s.park(a, id, "point", nil)
		}
	}
}

// Spin marks a busy-wait iteration (runtime.Gosched): the actor is not chosen again before somebody else moved.
func Spin(id int) {
	if s := cur(); s != nil {
		if a := s.self(); a != nil {
			s.park(a, id, "spin", nil)
		}
	}
}

func chanReady(s *Sched, ch interface{}) bool {
	v := reflect.ValueOf(ch)
	if !v.IsValid() || v.Kind() != reflect.Chan || v.IsNil() {
		return false
	}
	if v.Len() > 0 {
		return true
	}
	s.mu.Lock()
	c := s.closed[v.Pointer()]
	s.mu.Unlock()
	return c
}

// Recv precedes a blocking channel receive.
func Recv(id int, ch interface{}) {
	if s := cur(); s != nil {
		if a := s.self(); a != nil {
			a.chans = []interface{}{ch}
			s.park(a, id, "recv", func() bool { return chanReady(s, ch) })
			a.chans = nil
		}
	}
}

// Select precedes a blocking select over the given channels.
func Select(id int, chans ...interface{}) {
	if s := cur(); s != nil {
		if a := s.self(); a != nil {
			a.chans = chans
			s.park(a, id, "select", func() bool {
				for _, ch := range chans {
					if chanReady(s, ch) {
						return true
					}
				}
				return false
			})
			a.chans = nil
		}
	}
}

// ChanClosed precedes close(ch).
func ChanClosed(id int, ch interface{}) {
	if s := cur(); s != nil {
		s.mu.Lock()
		s.closed[reflect.ValueOf(ch).Pointer()] = true
		s.mu.Unlock()
		if a := s.self(); a != nil {
			s.park(a, id, "point", nil)
		}
	}
}

// Lock precedes x.Lock(): runnable only when the lock is free.
func Lock(id int, try func() bool, unlock func()) {
	if s := cur(); s != nil {
		if a := s.self(); a != nil {
			s.park(a, id, "lock", func() bool {
				if try() {
					unlock()
					return true
				}
				return false
			})
		}
	}
}

// PollReadable reports whether fd is readable right now (poll(2), nothing is consumed).
func PollReadable(fd int) bool { return pollReadable(fd) }

func pollReadable(fd int) bool {
	fds := []unix.PollFd{{Fd: int32(fd), Events: unix.POLLIN}}
	n, err := unix.Poll(fds, 0)
	return err == nil && n > 0 && fds[0].Revents&(unix.POLLIN|unix.POLLERR|unix.POLLHUP|unix.POLLNVAL) != 0
}

// EpollWait precedes EpollWait(epfd, _, msec): runnable when it would return at once.
func EpollWait(id int, epfd int, msec int) {
	if s := cur(); s != nil {
		if a := s.self(); a != nil {
			s.park(a, id, "epollwait", func() bool { return msec == 0 || pollReadable(epfd) })
		}
	}
}

// closeAudit is consulted before every close(2) netpoll issues, with or without a scheduler.
var closeAudit atomic.Value // func(point, fd int)

// SetCloseAudit installs (or, with nil, removes) the close(2) audit.
func SetCloseAudit(f func(point, fd int)) {
	if f == nil {
		closeAudit.Store((func(int, int))(nil))
		return
	}
	closeAudit.Store(f)
}

// CloseFD precedes a close of descriptor fd.
func CloseFD(id int, fd int) {
	if f, _ := closeAudit.Load().(func(int, int)); f != nil {
		f(id, fd)
	}
	if s := cur(); s != nil {
		if a := s.self(); a != nil {
			s.park(a, id, "closefd", nil)
		}
	}
}

// GoSpawn precedes a `go func(){...}()` statement of netpoll.
func GoSpawn(id int) {
	if s := cur(); s != nil {
		if a := s.self(); a != nil {
			atomic.AddInt32(&s.pending, 1)
		}
	}
}

// GoStart is the first statement of a goroutine started by netpoll; it adopts the goroutine as an actor
// when its parent announced it.
func GoStart(id int) {
	if s := cur(); s != nil {
		if atomic.LoadInt32(&s.pending) > 0 {
			a := &Actor{Name: fmt.Sprintf("go@%d", id), resume: make(chan struct{})}
			s.mu.Lock()
			a.ID = len(s.actors)
			s.actors = append(s.actors, a)
			s.byGoid[goid()] = a
			s.mu.Unlock()
			s.park(a, id, "start", nil)
		}
	}
}

// GoEnd is deferred in every goroutine started by netpoll.
func GoEnd() {
	p := recover()
	if s, _ := active.Load().(*Sched); s != nil {
		g := goid()
		s.mu.Lock()
		a := s.byGoid[g]
		s.mu.Unlock()
		if a != nil {
			if p != nil {
				buf := make([]byte, 8192)
				s.mu.Lock()
				s.Crashes = append(s.Crashes, fmt.Sprintf("%v\n%s", p, buf[:runtime.Stack(buf, false)]))
				s.mu.Unlock()
			}
			s.finish(a)
			return
		}
	}
	if p != nil {
		panic(p)
	}
}

// WaitFor parks the calling actor until pred holds (evaluated by the scheduler while everybody is parked).
func WaitFor(id int, pred func() bool) {
	if s := cur(); s != nil {
		if a := s.self(); a != nil {
			s.park(a, id, "wait", pred)
		}
	}
}

// Yield is a schedule point for harness actors.
func Yield(id int) { Point(id) }
