//go:build go1.18

// C19 (mux part): ShardQueue on a real netpoll connection, real goroutines, built with -race.
// The oracle is the race detector (the driver scans the log); the functional oracle is C17's.
package mux

import (
	"encoding/json"
	"fmt"
	"hash/fnv"
	"io"
	"net"
	"os"
	"path/filepath"
	"sync"
	"testing"
	"time"

	"github.com/cloudwego/netpoll"
	"pgregory.net/rapid"
)

type muxRaceScn struct {
	Shards   int   `json:"shards"`
	Adders   int   `json:"adders"`
	Adds     int   `json:"adds"`
	Burst    int   `json:"burst"`
	Size     int   `json:"size"`
	CloseUS  int   `json:"close_us"`  // the closer calls queue.Close after this delay (-1: after the adders)
	PeerGone bool  `json:"peer_gone"` // the peer closes the connection half way: the flush error path closes the connection
	Closers  int   `json:"closers"`
	Nil      []int `json:"nil,omitempty"` // getter ordinals that return isNil
}

func runMuxRace(s muxRaceScn) {
	ln, err := net.Listen("tcp", "127.0.0.1:0")
	if err != nil {
		return
	}
	defer ln.Close()
	var peer net.Conn
	acc := make(chan struct{})
	go func() {
		c, err := ln.Accept()
		if err == nil {
			peer = c
		}
		close(acc)
	}()
	conn, err := netpoll.DialConnection("tcp", ln.Addr().String(), 2*time.Second)
	if err != nil {
		return
	}
	<-acc
	if peer == nil {
		conn.Close()
		return
	}
	drained := make(chan struct{})
	go func() {
		if s.PeerGone {
			io.CopyN(io.Discard, peer, int64(s.Size))
			peer.Close()
		} else {
			io.Copy(io.Discard, peer)
		}
		close(drained)
	}()
	q := NewShardQueue(s.Shards, conn)
	isNil := map[int]bool{}
	for _, k := range s.Nil {
		isNil[k] = true
	}
	var wg sync.WaitGroup
	for a := 0; a < s.Adders; a++ {
		wg.Add(1)
		a := a
		go func() {
			defer wg.Done()
			for i := 0; i < s.Adds; i++ {
				var gts []WriterGetter
				for b := 0; b < s.Burst; b++ {
					ord := (a*s.Adds+i)*s.Burst + b
					gts = append(gts, func() (netpoll.Writer, bool) {
						if isNil[ord] {
							return nil, true
						}
						lb := netpoll.NewLinkBuffer(s.Size)
						p, _ := lb.Malloc(s.Size)
						for j := range p {
							p[j] = byte(ord + j)
						}
						lb.Flush()
						return lb, false
					})
				}
				q.Add(gts...)
			}
		}()
	}
	var cw sync.WaitGroup
	for k := 0; k < s.Closers; k++ {
		cw.Add(1)
		go func() {
			defer cw.Done()
			if s.CloseUS < 0 {
				wg.Wait()
			} else {
				time.Sleep(time.Duration(s.CloseUS) * time.Microsecond)
			}
			q.Close()
		}()
	}
	wg.Wait()
	cw.Wait()
	q.Close()
	conn.Close()
	peer.Close()
	select {
	case <-drained:
	case <-time.After(5 * time.Second):
	}
}

func TestVerifC19Mux(t *testing.T) {
	st := &muxStats{Property: "C19", Classes: map[string]int64{}, Extra: map[string]interface{}{}, seen: map[uint64]bool{}}
	defer func() {
		for h := range st.seen {
			st.Nontrivial = append(st.Nontrivial, h)
		}
		b, _ := json.Marshal(st)
		os.WriteFile(filepath.Join(outDir(), "stats-C19.json"), b, 0o644)
	}()
	rapid.Check(t, func(t *rapid.T) {
		s := muxRaceScn{
			Shards:   rapid.SampledFrom([]int{1, 2, 4, 8}).Draw(t, "shards"),
			Adders:   rapid.IntRange(2, 8).Draw(t, "adders"),
			Adds:     rapid.IntRange(1, 30).Draw(t, "adds"),
			Burst:    rapid.IntRange(1, 3).Draw(t, "burst"),
			Size:     rapid.SampledFrom([]int{1, 64, 4096, 70000}).Draw(t, "size"),
			CloseUS:  rapid.SampledFrom([]int{-1, -1, 0, 50, 500, 5000}).Draw(t, "close"),
			PeerGone: rapid.IntRange(0, 3).Draw(t, "peergone") == 0,
			Closers:  rapid.IntRange(1, 2).Draw(t, "closers"),
		}
		if rapid.Bool().Draw(t, "nils") {
			for i, n := 0, rapid.IntRange(1, 4).Draw(t, "nnil"); i < n; i++ {
				s.Nil = append(s.Nil, rapid.IntRange(0, s.Adders*s.Adds*s.Burst-1).Draw(t, "nil"))
			}
		}
		runMuxRace(s)
		st.Evaluations++
		st.Classes["workload-shardqueue"]++
		if s.PeerGone {
			st.Classes["shardqueue-peer-gone"]++
		}
		if s.CloseUS >= 0 {
			st.Classes["shardqueue-close-during-adds"]++
		}
		h := fnv.New64a()
		fmt.Fprintf(h, "%+v", s)
		if !st.seen[h.Sum64()] {
			st.seen[h.Sum64()] = true
			if len(st.Samples) < 3 {
				st.Samples = append(st.Samples, fmt.Sprintf("shardqueue/%+v", s))
			}
		}
	})
}
