//go:build go1.18

// C17: ShardQueue under generated schedules. The queue's atomics, its spin locks and the worker
// task are schedule points (injected by tools/vinstr); the connection is a harness object whose
// Writer is a real LinkBuffer and whose Flush appends to a sink, so no sockets are needed.
package mux

import (
	"context"
	"encoding/json"
	"fmt"
	"hash/fnv"
	"os"
	"path/filepath"
	"sort"
	"strings"
	"testing"

	"github.com/cloudwego/netpoll"
	"github.com/cloudwego/netpoll/internal/runner"
	vs "github.com/cloudwego/netpoll/internal/verifsched"
	"pgregory.net/rapid"
)

type sinkConn struct {
	netpoll.Connection // nil: any method the queue is not supposed to call panics
	w                  *sinkWriter
	active             bool
	closes             int
}

func (c *sinkConn) IsActive() bool         { return c.active }
func (c *sinkConn) Writer() netpoll.Writer { return c.w }
func (c *sinkConn) Close() error           { c.closes++; c.active = false; return nil }

type sinkWriter struct {
	*netpoll.LinkBuffer
	sink    []byte
	flushes int
}

func (w *sinkWriter) Flush() error {
	w.flushes++
	if err := w.LinkBuffer.Flush(); err != nil {
		return err
	}
	if n := w.LinkBuffer.Len(); n > 0 {
		p, err := w.LinkBuffer.Next(n)
		if err != nil {
			return err
		}
		w.sink = append(w.sink, p...)
		w.LinkBuffer.Release()
	}
	return nil
}

type muxScn struct {
	Shards   int     `json:"shards"`
	Adders   [][]int `json:"adders"` // per adder: number of getters in each Add call
	CloseAt  int     `json:"close_at"` // -1: no Close; otherwise the closer waits until that many Add calls have returned
	LateAdds int     `json:"late_adds"`
}

type muxEvent struct {
	Step int
	Name string
}

type muxOutcome struct {
	s         *vs.Sched
	invoked   map[int]int
	addStart  map[int]int // getter id -> step at which its Add was called
	addEnd    map[int]int
	closeBeg  int
	closeEnd  int
	closeErr  error
	sink      []byte
	tasks     int
	parked    []string
	livelock  bool
	stalled   string
	events    []muxEvent
	strategy  int
	connClose int
	atClose   map[int]int
}

func muxPayload(id int) []byte { return []byte(fmt.Sprintf("<%04d>", id)) }

func runMux(t *rapid.T, sc muxScn, replay []vs.Step) *muxOutcome {
	o := &muxOutcome{s: vs.New(), invoked: map[int]int{}, addStart: map[int]int{}, addEnd: map[int]int{}, closeBeg: -1, closeEnd: -1}
	s := o.s
	conn := &sinkConn{active: true, w: &sinkWriter{LinkBuffer: netpoll.NewLinkBuffer()}}
	prio := map[int]int{}
	lastRun := map[int]int{}
	chpts := map[int]bool{}
	stay := 1
	if t != nil {
		o.strategy = rapid.SampledFrom([]int{0, 0, 1, 1, 2}).Draw(t, "strategy")
		if o.strategy == 1 {
			stay = rapid.SampledFrom([]int{1, 3, 7, 15}).Draw(t, "stay")
		}
		if o.strategy == 2 {
			for i, n := 0, rapid.IntRange(0, 3).Draw(t, "nchange"); i < n; i++ {
				chpts[rapid.IntRange(0, 200).Draw(t, "changeAt")] = true
			}
		}
	}
	s.Choose = func(en []*vs.Actor, cur *vs.Actor) int {
		step := s.StepCount()
		if replay != nil {
			if step < len(replay) {
				for k, a := range en {
					if a.ID == replay[step].Actor {
						return k
					}
				}
			}
			return 0
		}
		if t == nil {
			return 0
		}
		if cur != nil {
			lastRun[cur.ID] = step
		}
		oldest, oi := 0, -1
		for k, a := range en {
			lr, ok := lastRun[a.ID]
			if !ok {
				lastRun[a.ID] = step
				continue
			}
			if age := step - lr; age > 400 && age > oldest {
				oldest, oi = age, k
			}
		}
		if oi >= 0 {
			lastRun[en[oi].ID] = step
			return oi
		}
		switch o.strategy {
		case 1:
			if cur != nil && en[0] == cur {
				if rapid.IntRange(0, stay).Draw(t, "sw") != 0 {
					return 0
				}
				return rapid.IntRange(1, len(en)-1).Draw(t, "pick")
			}
			return rapid.IntRange(0, len(en)-1).Draw(t, "pick")
		case 2:
			if chpts[step] && cur != nil {
				prio[cur.ID] = -step - 1
			}
			best, bi := -1<<30, 0
			for k, a := range en {
				p, ok := prio[a.ID]
				if !ok {
					p = rapid.IntRange(1, 1000).Draw(t, "prio")
					prio[a.ID] = p
				}
				if p > best {
					best, bi = p, k
				}
			}
			return bi
		}
		return rapid.IntRange(0, len(en)-1).Draw(t, "pick")
	}
	saved := runner.RunTask
	runner.RunTask = func(ctx context.Context, f func()) {
		o.tasks++
		s.Go(fmt.Sprintf("worker%d", o.tasks), false, func() {
			defer func() {
				if p := recover(); p != nil {
					o.events = append(o.events, muxEvent{s.StepCount(), fmt.Sprintf("worker-panic:%v", p)})
				}
			}()
			f()
			o.events = append(o.events, muxEvent{s.StepCount(), "worker-exit"})
		})
	}
	defer func() { runner.RunTask = saved }()
	vs.Install(s)
	defer s.Abort()

	q := NewShardQueue(sc.Shards, conn)
	addsReturned := 0
	closeReturned := false
	nextID := 0
	mkGetter := func(id int) WriterGetter {
		return func() (netpoll.Writer, bool) {
			o.invoked[id]++
			b := netpoll.NewLinkBuffer()
			b.WriteBinary(muxPayload(id))
			b.Flush()
			return b, false
		}
	}
	for ai, calls := range sc.Adders {
		calls := calls
		s.Go(fmt.Sprintf("adder%d", ai), false, func() {
			for _, k := range calls {
				vs.Yield(-80)
				var gts []WriterGetter
				var ids []int
				for j := 0; j < k; j++ {
					id := nextID
					nextID++
					ids = append(ids, id)
					gts = append(gts, mkGetter(id))
				}
				st := s.StepCount()
				for _, id := range ids {
					o.addStart[id] = st
				}
				o.events = append(o.events, muxEvent{st, "add"})
				q.Add(gts...)
				en := s.StepCount()
				for _, id := range ids {
					o.addEnd[id] = en
				}
				addsReturned++
			}
		})
	}
	if sc.CloseAt >= 0 {
		s.Go("closer", false, func() {
			vs.WaitFor(-81, func() bool { return addsReturned >= sc.CloseAt })
			vs.Yield(-81)
			o.closeBeg = s.StepCount()
			o.events = append(o.events, muxEvent{o.closeBeg, "close+"})
			o.closeErr = q.Close()
			o.closeEnd = s.StepCount()
			o.events = append(o.events, muxEvent{o.closeEnd, "close-"})
			closeReturned = true
			// what was handled (invoked and appended) by the time Close returned
			o.atClose = map[int]int{}
			for k, v := range o.invoked {
				o.atClose[k] = v
			}
		})
		if sc.LateAdds > 0 {
			s.Go("lateadder", false, func() {
				vs.WaitFor(-82, func() bool { return closeReturned })
				for j := 0; j < sc.LateAdds; j++ {
					id := nextID
					nextID++
					o.addStart[id] = s.StepCount()
					q.Add(mkGetter(id))
					o.addEnd[id] = s.StepCount()
				}
			})
		}
	}
	res := s.Run(60000)
	o.stalled = res.Stalled
	o.livelock = res.Budget
	for _, a := range res.Parked {
		o.parked = append(o.parked, a.Name)
	}
	if sc.CloseAt < 0 || o.closeEnd < 0 {
		o.sink = append([]byte(nil), conn.w.sink...)
	}
	o.connClose = conn.closes
	// final sink (after quiescence) is needed as well
	o.events = append(o.events, muxEvent{s.StepCount(), "final-sink:" + string(conn.w.sink)})
	return o
}

func judgeMux(sc muxScn, o *muxOutcome) (sig, msg string) {
	var names []string
	final := ""
	for _, e := range o.events {
		if strings.HasPrefix(e.Name, "final-sink:") {
			final = strings.TrimPrefix(e.Name, "final-sink:")
			continue
		}
		names = append(names, e.Name)
	}
	logs := strings.Join(names, " ")
	if len(o.s.Crashes) > 0 {
		return "process-crash", "a panic escaped a goroutine the queue starts: " + o.s.Crashes[0]
	}
	for _, n := range names {
		if strings.HasPrefix(n, "worker-panic") {
			return "worker-panic", n + " | events: " + logs
		}
	}
	if o.livelock {
		return "livelock", "the schedule did not quiesce | events: " + logs
	}
	if len(o.parked) > 0 {
		return "parked", fmt.Sprintf("actors blocked at quiescence: %v | events: %s", o.parked, logs)
	}
	if o.connClose > 0 {
		return "conn-closed", "the queue closed a healthy connection | events: " + logs
	}
	ids := make([]int, 0, len(o.addStart))
	for id := range o.addStart {
		ids = append(ids, id)
	}
	sort.Ints(ids)
	for _, id := range ids {
		n := o.invoked[id]
		tag := string(muxPayload(id))
		inFinal := strings.Count(final, tag)
		end, returned := o.addEnd[id]
		beforeClose := returned && (o.closeBeg < 0 || end <= o.closeBeg)
		afterClose := o.closeEnd >= 0 && o.addStart[id] >= o.closeEnd
		switch {
		case n > 1:
			return "getter-twice", fmt.Sprintf("getter %d was invoked %d times | events: %s", id, n, logs)
		case inFinal != n:
			return "getter-not-flushed", fmt.Sprintf("getter %d was invoked %d times but its data appears %d times in the sink at quiescence (no further Add would come) | events: %s", id, n, inFinal, logs)
		case beforeClose && n != 1:
			return "getter-lost", fmt.Sprintf("getter %d, added while the queue was active, was invoked %d times at quiescence | events: %s", id, n, logs)
		case afterClose && n != 0:
			return "getter-after-close", fmt.Sprintf("getter %d, added after Close had returned, was invoked | events: %s", id, logs)
		}
		if beforeClose && o.closeEnd >= 0 && o.atClose != nil && o.atClose[id] != 1 {
			return "close-early", fmt.Sprintf("Close returned before getter %d (added before Close was called) had been handled | events: %s", id, logs)
		}
	}
	if o.closeBeg >= 0 && o.closeErr != nil {
		return "close-error", fmt.Sprintf("Close returned %v", o.closeErr)
	}
	return "", ""
}

func genMuxScn(t *rapid.T) muxScn {
	sc := muxScn{Shards: rapid.IntRange(1, 4).Draw(t, "shards"), CloseAt: -1}
	total := 0
	for i, n := 0, rapid.IntRange(1, 4).Draw(t, "adders"); i < n; i++ {
		var calls []int
		for j, m := 0, rapid.IntRange(1, 5).Draw(t, "calls"); j < m; j++ {
			calls = append(calls, rapid.IntRange(1, 3).Draw(t, "getters"))
			total++
		}
		sc.Adders = append(sc.Adders, calls)
	}
	if rapid.IntRange(0, 2).Draw(t, "close") > 0 {
		sc.CloseAt = rapid.IntRange(0, total).Draw(t, "closeAt")
		sc.LateAdds = rapid.IntRange(0, 2).Draw(t, "late")
	}
	return sc
}

// ---- statistics / reporting (same file formats as the netpoll package harness) ----

type muxStats struct {
	Property    string                 `json:"property"`
	Evaluations int64                  `json:"evaluations"`
	Classes     map[string]int64       `json:"classes"`
	Nontrivial  []uint64               `json:"nontrivial_hashes"`
	Samples     []interface{}          `json:"samples"`
	Extra       map[string]interface{} `json:"extra"`
	seen        map[uint64]bool
}

func (st *muxStats) write() {
	for h := range st.seen {
		st.Nontrivial = append(st.Nontrivial, h)
	}
	b, _ := json.Marshal(st)
	os.WriteFile(filepath.Join(outDir(), "stats-C17.json"), b, 0o644)
}

func outDir() string {
	if d := os.Getenv("VERIF_OUT"); d != "" {
		return d
	}
	return "."
}

func report(sig, msg string, replay interface{}, slot string) {
	v := []map[string]interface{}{{"property": "C17", "slot": slot, "signature": sig, "message": msg, "replay": replay}}
	b, _ := json.MarshalIndent(v, "", " ")
	os.WriteFile(filepath.Join(outDir(), "violations.json"), b, 0o644)
}

func TestVerifC17(t *testing.T) {
	st := &muxStats{Property: "C17", Classes: map[string]int64{}, Extra: map[string]interface{}{}, seen: map[uint64]bool{}}
	defer st.write()
	if p := os.Getenv("VERIF_REPLAY"); p != "" {
		b, err := os.ReadFile(p)
		if err != nil {
			t.Fatal(err)
		}
		var rec struct {
			Replay struct {
				Scenario  muxScn    `json:"scenario"`
				Decisions []vs.Step `json:"decisions"`
			} `json:"replay"`
		}
		json.Unmarshal(b, &rec)
		o := runMux(nil, rec.Replay.Scenario, rec.Replay.Decisions)
		st.Evaluations++
		if o.stalled != "" {
			fmt.Println("VERIF-HARNESS", o.stalled)
			os.Exit(2)
		}
		if sig, msg := judgeMux(rec.Replay.Scenario, o); sig != "" {
			report(sig, msg, map[string]interface{}{"scenario": rec.Replay.Scenario, "decisions": o.s.Trace}, "replay:C17")
			t.Fatalf("C17 violated [%s]: %s", sig, msg)
		}
		return
	}
	rapid.Check(t, func(t *rapid.T) {
		sc := genMuxScn(t)
		o := runMux(t, sc, nil)
		st.Evaluations++
		if o.stalled != "" {
			fmt.Println("VERIF-HARNESS", o.stalled)
			os.WriteFile(filepath.Join(outDir(), "infra.txt"), []byte(o.stalled), 0o644)
			os.Exit(2)
		}
		if sig, msg := judgeMux(sc, o); sig != "" {
			report(sig, msg, map[string]interface{}{"scenario": sc, "strategy": o.strategy, "decisions": o.s.Trace}, "rapid:C17")
			t.Fatalf("C17 violated [%s]: %s\nscenario: %+v", sig, msg, sc)
		}
		st.Classes["tasks"] += int64(o.tasks)
		st.Classes["steps"] += int64(len(o.s.Trace))
		if sc.CloseAt >= 0 {
			st.Classes["with-close"]++
		}
		// non-trivial: an Add happened while a worker existed, i.e. the hand-off between Add's trigger and the
		// worker's exit check was actually raced (several workers, or an add event after the first worker started)
		nontrivial := o.tasks >= 2
		if !nontrivial {
			firstWorker := -1
			for _, e := range o.events {
				if e.Name == "worker-exit" && firstWorker < 0 {
					firstWorker = e.Step
				}
			}
			for _, e := range o.events {
				if e.Name == "add" && firstWorker >= 0 && e.Step < firstWorker && e.Step > 0 {
					nontrivial = len(sc.Adders) > 1
				}
			}
		}
		if nontrivial {
			st.Classes["nontrivial"]++
			var names []string
			for _, e := range o.events {
				if !strings.HasPrefix(e.Name, "final-sink:") {
					names = append(names, e.Name)
				}
			}
			h := fnv.New64a()
			fmt.Fprintf(h, "%+v|%v|%d", sc, names, len(o.s.Trace))
			if !st.seen[h.Sum64()] {
				st.seen[h.Sum64()] = true
				if len(st.Samples) < 4 {
					st.Samples = append(st.Samples, map[string]interface{}{"scenario": sc, "events": names, "workers": o.tasks, "steps": len(o.s.Trace)})
				}
			}
		}
	})
}
