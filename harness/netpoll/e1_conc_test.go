//go:build go1.18

// E1, concurrent part of C02/C03: Slice readers cut from one parent buffer are read and released
// on their own goroutines (nested Slice readers on further goroutines) while the parent goes on
// reading, writing, releasing and finally closing on the test goroutine. The shape of a case is a
// rapid-generated value; the execution runs on real threads and is repeated; the oracles do not
// depend on the schedule: every byte a reader gets equals the parent's position-keyed stream, every
// zero-copy result a reader still holds is intact and lies in a live pool block when the reader
// releases it, the pool ledger shows no double/interior/foreign free, caller-owned memory is
// untouched. The same function is a C19 workload under the race detector.
package netpoll

import (
	"bytes"
	"encoding/json"
	"fmt"
	"runtime"
	"runtime/debug"
	"sync"
	"sync/atomic"
	"testing"

	"github.com/bytedance/gopkg/lang/mcache"
	"pgregory.net/rapid"
)

type concOp struct {
	K string `json:"k"` // reader: next peek skip bin str byte release slice; parent only: write writebin close
	N int    `json:"n,omitempty"`
	Y int    `json:"y,omitempty"` // Gosched calls before the operation
}

type concReader struct {
	G    int          `json:"g,omitempty"` // top-level readers with the same G>0 run one after the other on one goroutine
	N    int          `json:"n"`
	Ops  []concOp     `json:"ops,omitempty"`
	Kids []concReader `json:"kids,omitempty"` // consumed in order by the "slice" operations
}

type concCase struct {
	Prop   string       `json:"prop"`
	Cap    int          `json:"cap"`
	Writes []concOp     `json:"writes"` // malloc bin binbig str byte
	Pre    int          `json:"pre"`
	Kids   []concReader `json:"kids"`
	Tail   []concOp     `json:"tail,omitempty"`
	Reps   int          `json:"reps"`
	Conc   string       `json:"conc"` // marker for the driver: which part a replay file belongs to
}

type concExec struct {
	mu   sync.Mutex
	prop string
	sig  string
	msg  string
	wg   sync.WaitGroup
	go_  chan struct{}
	priv []concPriv
	nG   int
	// spin barrier: the readers that carry a "sync" operation wait for each other (bounded, no clock) so that
	// their next operations - usually the Releases of readers sharing one block - really run at the same time
	expect   int32
	arrived  int32
	caseProp string
}

func (x *concExec) syncPoint() {
	atomic.AddInt32(&x.arrived, 1)
	for i := 0; i < 30000 && atomic.LoadInt32(&x.arrived) < x.expect; i++ {
	}
}

func concCountSync(rs []concReader) (n int32) {
	for _, r := range rs {
		for _, o := range r.Ops {
			if o.K == "sync" {
				n++
			}
		}
		n += concCountSync(r.Kids)
	}
	return
}

type concPriv struct {
	p   []byte
	off int
}

type concHeld struct {
	p    []byte
	off  int
	kind string
}

type concMember struct {
	who  string
	lb   *LinkBuffer
	spec concReader
	base int
}

func (x *concExec) fail(prop, sig, format string, a ...interface{}) {
	x.mu.Lock()
	if x.sig == "" {
		x.prop, x.sig, x.msg = prop, sig, fmt.Sprintf(format, a...)
	}
	x.mu.Unlock()
}

func (x *concExec) failed() bool {
	x.mu.Lock()
	defer x.mu.Unlock()
	return x.sig != ""
}

func (x *concExec) checkHeld(who string, held []concHeld) {
	for _, h := range held {
		if !mcache.Live(h.p) {
			x.fail("C02", "conc-freed:"+h.kind, "%s: a %s result of %d bytes (stream offset %d) lies in a block that was returned to the pool before this reader's Release; freed by %s", who, h.kind, len(h.p), h.off, mcache.FreedBy(h.p))
			return
		}
		if want := keyedBytes(h.off, len(h.p)); !bytes.Equal(h.p, want) {
			x.fail("C02", "conc-changed:"+h.kind, "%s: a %s result of %d bytes (stream offset %d) changed before this reader's Release (first difference at %d)", who, h.kind, len(h.p), h.off, firstDiff(h.p, want))
			return
		}
	}
}

// runReader executes spec on lb, whose first readable byte is byte base of the parent's stream.
func (x *concExec) runReader(who string, lb *LinkBuffer, spec concReader, base int, parent bool, total *int) {
	defer func() {
		// A panic inside a buffer operation (a node recycled twice corrupts the chains) is a failure of the
		// case, whichever goroutine it hits; it must not kill the process or be taken for a flaky test.
		if r := recover(); r != nil {
			x.fail(x.caseProp, "conc-panic", "%s: panic inside a LinkBuffer operation: %v\n%s", who, r, debug.Stack())
		}
	}()
	pos := base
	end := base + spec.N
	var held []concHeld
	kid := 0
	closed := false
	for _, op := range spec.Ops {
		if x.failed() || closed {
			break
		}
		for i := 0; i < op.Y; i++ {
			runtime.Gosched()
		}
		if parent {
			end = *total
		}
		n := op.N
		if n > end-pos {
			n = end - pos
		}
		readCheck := func(kind string, p []byte, err error) bool {
			if err != nil || len(p) != n {
				x.fail("C02", "conc-read:"+kind, "%s: %s(%d) at stream offset %d with %d bytes left returned %d bytes, err %v", who, kind, n, pos, end-pos, len(p), err)
				return false
			}
			if want := keyedBytes(pos, n); !bytes.Equal(p, want) {
				sig := "conc-value:" + kind
				prop := "C02"
				if !mcache.Live(p) {
					prop, sig = "C02", "conc-freed:"+kind
				}
				x.fail(prop, sig, "%s: %s(%d) at stream offset %d returned other bytes than the stream holds there (first difference at %d; block live: %v)", who, kind, n, pos, firstDiff(p, want), mcache.Live(p))
				return false
			}
			return true
		}
		switch op.K {
		case "next":
			if n <= 0 {
				continue
			}
			p, err := lb.Next(n)
			if !readCheck("next", p, err) {
				return
			}
			held = append(held, concHeld{p, pos, "next"})
			pos += n
		case "peek":
			if n <= 0 {
				continue
			}
			p, err := lb.Peek(n)
			if !readCheck("peek", p, err) {
				return
			}
			held = append(held, concHeld{p, pos, "peek"})
		case "skip":
			if n <= 0 {
				continue
			}
			if err := lb.Skip(n); err != nil {
				x.fail("C02", "conc-read:skip", "%s: Skip(%d) with %d bytes left: %v", who, n, end-pos, err)
				return
			}
			pos += n
		case "bin":
			if n <= 0 {
				continue
			}
			p, err := lb.ReadBinary(n)
			if !readCheck("bin", p, err) {
				return
			}
			x.mu.Lock()
			x.priv = append(x.priv, concPriv{p, pos})
			x.mu.Unlock()
			pos += n
		case "str":
			if n <= 0 {
				continue
			}
			s, err := lb.ReadString(n)
			if !readCheck("str", []byte(s), err) {
				return
			}
			pos += n
		case "byte":
			if end-pos <= 0 {
				continue
			}
			c, err := lb.ReadByte()
			if err != nil || c != keyed(pos) {
				x.fail("C02", "conc-value:byte", "%s: ReadByte at stream offset %d returned %#x, %v; the stream holds %#x", who, pos, c, err, keyed(pos))
				return
			}
			pos++
		case "sync":
			x.syncPoint()
		case "release":
			x.checkHeld(who, held)
			held = held[:0]
			lb.Release()
		case "slice":
			if kid >= len(spec.Kids) {
				continue
			}
			ks := spec.Kids[kid]
			if ks.N > end-pos {
				ks.N = end - pos
			}
			if ks.N <= 0 {
				continue
			}
			// Slice releases this reader: what it handed out before ends here
			x.checkHeld(who, held)
			held = held[:0]
			r, err := lb.Slice(ks.N)
			if err != nil {
				x.fail("C02", "conc-read:slice", "%s: Slice(%d) with %d bytes left: %v", who, ks.N, end-pos, err)
				return
			}
			if r.Len() != ks.N {
				x.fail("C02", "conc-read:slice-len", "%s: Slice(%d) returned a reader of %d bytes", who, ks.N, r.Len())
				return
			}
			kid++
			x.spawn(fmt.Sprintf("%s.%d", who, kid), r.(*LinkBuffer), ks, pos)
			pos += ks.N
		case "write", "writebin":
			if !parent {
				continue
			}
			p := keyedBytes(*total, op.N)
			if op.K == "write" {
				buf, err := lb.Malloc(op.N)
				if err != nil || len(buf) != op.N {
					x.fail("C02", "conc-write", "%s: Malloc(%d): %d bytes, %v", who, op.N, len(buf), err)
					return
				}
				copy(buf, p)
			} else {
				lb.WriteBinary(p)
			}
			lb.Flush()
			*total += op.N
		case "close":
			if !parent {
				continue
			}
			x.checkHeld(who, held)
			held = held[:0]
			lb.Close()
			closed = true
		}
	}
	if closed {
		return
	}
	x.checkHeld(who, held)
	lb.Release()
	if !parent {
		// a Slice reader is done with: drop the rest of it as well
		if rest := end - pos; rest > 0 {
			lb.Skip(rest)
			lb.Release()
		}
	}
}

func (x *concExec) spawn(who string, lb *LinkBuffer, spec concReader, base int) {
	x.wg.Add(1)
	x.nG++
	go func() {
		defer x.wg.Done()
		<-x.go_
		x.runReader(who, lb, spec, base, false, nil)
	}()
}

// runConcOnce performs one execution of the case on real goroutines.
func runConcOnce(c concCase, record bool) (prop, sig, msg string, goroutines int) {
	if record {
		// the node capacity is a global: it is only changed in the E1 processes, where nothing else runs
		// (under the race detector, C19, pollers of earlier workloads may still be reading it)
		saved := LinkBufferCap
		LinkBufferCap = c.Cap
		defer func() { LinkBufferCap = saved }()
	}
	if record {
		mcache.SetRecording(true)
		defer mcache.SetRecording(false)
	}
	x := &concExec{go_: make(chan struct{}), caseProp: c.Prop}
	x.expect = concCountSync(c.Kids)
	for _, o := range c.Tail {
		if o.K == "sync" {
			x.expect++
		}
	}
	lb := NewLinkBuffer()
	total := 0
	type owned struct {
		p, snap []byte
	}
	var callerMem []owned
	for _, w := range c.Writes {
		p := keyedBytes(total, w.N)
		switch w.K {
		case "malloc":
			buf, _ := lb.Malloc(w.N)
			copy(buf, p)
		case "bin", "binbig":
			q := make([]byte, w.N, 1<<uint(bitsFor(w.N))) // power-of-two capacity: a free of it would be accepted by the pool
			copy(q, p)
			lb.WriteBinary(q)
			callerMem = append(callerMem, owned{q, p})
		case "str":
			lb.WriteString(string(p))
		case "byte":
			for i := 0; i < w.N; i++ {
				lb.WriteByte(p[i])
			}
		}
		total += w.N
	}
	lb.Flush()
	pos := 0
	if c.Pre > 0 && c.Pre <= total {
		p, err := lb.Next(c.Pre)
		if err != nil || !bytes.Equal(p, keyedBytes(0, c.Pre)) {
			return "C02", "conc-read:pre", fmt.Sprintf("parent Next(%d) before the cuts: %d bytes, %v", c.Pre, len(p), err), 0
		}
		pos = c.Pre
	}
	spec := concReader{N: total - pos, Kids: c.Kids}
	// the cuts come first (all children exist before anybody runs), then the parent's own operations
	for range c.Kids {
		spec.Ops = append(spec.Ops, concOp{K: "slice"})
	}
	cuts := len(spec.Ops)
	spec.Ops = append(spec.Ops, c.Tail...)
	// run the cuts, open the gate, run the tail
	cutSpec := spec
	cutSpec.Ops = spec.Ops[:cuts]
	ptotal := total
	groups := map[int][]concMember{}
	func() {
		// the cuts: like runReader but without the final Release
		end := ptotal
		kid := 0
		for range cutSpec.Ops {
			ks := spec.Kids[kid]
			if ks.N > end-pos {
				ks.N = end - pos
			}
			kid++
			if ks.N <= 0 {
				continue
			}
			r, err := lb.Slice(ks.N)
			if err != nil || r.Len() != ks.N {
				x.fail("C02", "conc-read:slice", "parent Slice(%d) with %d bytes left: %v", ks.N, end-pos, err)
				return
			}
			if ks.G > 0 {
				groups[ks.G] = append(groups[ks.G], concMember{fmt.Sprintf("kid%d", kid), r.(*LinkBuffer), ks, pos})
			} else {
				x.spawn(fmt.Sprintf("kid%d", kid), r.(*LinkBuffer), ks, pos)
			}
			pos += ks.N
		}
		for g := 1; g <= len(c.Kids); g++ {
			if ms := groups[g]; len(ms) > 0 {
				x.wg.Add(1)
				x.nG++
				go func() {
					defer x.wg.Done()
					<-x.go_
					for _, m := range ms {
						x.runReader(m.who, m.lb, m.spec, m.base, false, nil)
					}
				}()
			}
		}
	}()
	close(x.go_)
	if !x.failed() {
		tail := concReader{N: ptotal - pos, Ops: spec.Ops[cuts:]}
		x.runReader("parent", lb, tail, pos, true, &ptotal)
	}
	x.wg.Wait()
	if x.sig == "" {
		for _, pr := range x.priv {
			if want := keyedBytes(pr.off, len(pr.p)); !bytes.Equal(pr.p, want) {
				x.fail("C03", "conc-private-written", "a private copy returned by ReadBinary (%d bytes, stream offset %d) was written or freed afterwards (first difference at %d)", len(pr.p), pr.off, firstDiff(pr.p, want))
			}
		}
		for _, o := range callerMem {
			if !bytes.Equal(o.p, o.snap) {
				x.fail("C03", "conc-caller-written", "a slice passed to WriteBinary (%d bytes) was written or poisoned afterwards (first difference at %d)", len(o.p), firstDiff(o.p, o.snap))
			}
		}
	}
	if x.sig == "" && record {
		for _, ev := range mcache.Events() {
			if ev.Kind == "double" || ev.Poolable {
				x.fail("C03", "conc-ledger:"+ev.Kind, "%s free of a block of capacity %d that the real pool would have accepted; %s", ev.Kind, ev.Cap, ev.Stack)
				break
			}
		}
	}
	return x.prop, x.sig, x.msg, x.nG + 1
}

func bitsFor(n int) int {
	b := 0
	for (1 << uint(b)) < n {
		b++
	}
	return b
}

func genConcSize(t *rapid.T, capv int, label string) int {
	switch rapid.IntRange(0, 5).Draw(t, label+"-class") {
	case 0:
		return rapid.IntRange(1, 3).Draw(t, label)
	case 1:
		return rapid.IntRange(capv-1, capv+1).Draw(t, label)
	case 2:
		return rapid.IntRange(1, capv).Draw(t, label)
	case 3:
		return rapid.IntRange(capv, 3*capv).Draw(t, label)
	default:
		return rapid.IntRange(1, 2*capv+40).Draw(t, label)
	}
}

func genConcOps(t *rapid.T, capv, depth int, nkids int) []concOp {
	var ops []concOp
	kinds := []string{"next", "next", "peek", "skip", "bin", "str", "byte", "release", "release"}
	left := nkids
	for i, n := 0, rapid.IntRange(0, 5).Draw(t, "nops"); i < n; i++ {
		k := rapid.SampledFrom(kinds).Draw(t, "op")
		ops = append(ops, concOp{K: k, N: genConcSize(t, capv, "opn"), Y: rapid.SampledFrom([]int{0, 0, 0, 1, 3}).Draw(t, "yield")})
	}
	// place the nested cuts
	for ; left > 0; left-- {
		at := rapid.IntRange(0, len(ops)).Draw(t, "sliceat")
		ops = append(ops[:at], append([]concOp{{K: "slice"}}, ops[at:]...)...)
	}
	return ops
}

func genConcReader(t *rapid.T, capv, depth int) concReader {
	r := concReader{N: genConcSize(t, capv, "kidn")}
	if rapid.IntRange(0, 2).Draw(t, "big") == 0 {
		r.N += rapid.IntRange(capv, 4*capv).Draw(t, "kidextra")
	}
	nk := 0
	if depth < 2 {
		nk = rapid.SampledFrom([]int{0, 0, 1, 2}).Draw(t, "nested")
	}
	for i := 0; i < nk; i++ {
		r.Kids = append(r.Kids, genConcReader(t, capv, depth+1))
	}
	r.Ops = genConcOps(t, capv, depth, nk)
	if rapid.IntRange(0, 2).Draw(t, "sync") > 0 {
		r.Ops = append(r.Ops, concOp{K: "sync"}) // the final Release follows
	}
	return r
}

// genConcStripe: many one-node blocks, every block shared by exactly two Slice readers that belong to two
// (or three) goroutines marching along the chain: the last two references of block after block are dropped at
// about the same time.
func genConcStripe(t *rapid.T, prop string) concCase {
	c := concCase{Prop: prop, Conc: "slices", Cap: rapid.SampledFrom([]int{8, 64, 512}).Draw(t, "cap")}
	if prop == "C19" {
		c.Cap = LinkBufferCap
	}
	m := rapid.IntRange(8, 120).Draw(t, "blocks")
	ng := rapid.IntRange(2, 3).Draw(t, "groups")
	wk := rapid.SampledFrom([]string{"malloc", "malloc", "bin"}).Draw(t, "wkind")
	for i := 0; i < m; i++ {
		c.Writes = append(c.Writes, concOp{K: wk, N: c.Cap})
	}
	c.Pre = rapid.IntRange(1, c.Cap-1).Draw(t, "pre")
	hold := rapid.Bool().Draw(t, "hold")
	for i := 0; i < m-1; i++ {
		r := concReader{G: 1 + i%ng, N: c.Cap}
		if i < ng {
			r.Ops = append(r.Ops, concOp{K: "sync"})
		}
		if hold {
			r.Ops = append(r.Ops, concOp{K: "next", N: rapid.IntRange(1, c.Cap).Draw(t, "hn")})
		}
		c.Kids = append(c.Kids, r)
	}
	if rapid.Bool().Draw(t, "tailrelease") {
		c.Tail = append(c.Tail, concOp{K: "sync"}, concOp{K: rapid.SampledFrom([]string{"release", "close"}).Draw(t, "tailop")})
	}
	return c
}

func genConcCase(t *rapid.T, prop string) concCase {
	if rapid.IntRange(0, 3).Draw(t, "family") == 0 {
		return genConcStripe(t, prop)
	}
	c := concCase{Prop: prop, Conc: "slices", Cap: rapid.SampledFrom(e1Caps).Draw(t, "cap")}
	if prop == "C19" {
		c.Cap = LinkBufferCap
	}
	for i, n := 0, rapid.IntRange(1, 6).Draw(t, "nwrites"); i < n; i++ {
		k := rapid.SampledFrom([]string{"malloc", "malloc", "bin", "binbig", "str", "byte"}).Draw(t, "wkind")
		sz := genConcSize(t, c.Cap, "wn")
		switch k {
		case "binbig":
			sz = rapid.IntRange(BinaryInplaceThreshold+1, BinaryInplaceThreshold+5000).Draw(t, "wbig")
		case "byte":
			if sz > 40 {
				sz = 40
			}
		}
		c.Writes = append(c.Writes, concOp{K: k, N: sz})
	}
	c.Pre = rapid.SampledFrom([]int{0, 0, 1, c.Cap / 2, c.Cap}).Draw(t, "pre")
	for i, n := 0, rapid.IntRange(1, 4).Draw(t, "nkids"); i < n; i++ {
		c.Kids = append(c.Kids, genConcReader(t, c.Cap, 1))
	}
	tailKinds := []string{"next", "peek", "skip", "bin", "release", "release", "write", "writebin", "close"}
	for i, n := 0, rapid.IntRange(0, 5).Draw(t, "ntail"); i < n; i++ {
		k := rapid.SampledFrom(tailKinds).Draw(t, "tail")
		sz := genConcSize(t, c.Cap, "tailn")
		if k == "writebin" && rapid.Bool().Draw(t, "tailbig") {
			sz = rapid.IntRange(BinaryInplaceThreshold+1, BinaryInplaceThreshold+3000).Draw(t, "tailbign")
		}
		c.Tail = append(c.Tail, concOp{K: k, N: sz, Y: rapid.SampledFrom([]int{0, 0, 1, 3}).Draw(t, "taily")})
	}
	if rapid.IntRange(0, 2).Draw(t, "tailsync") > 0 {
		at := rapid.IntRange(0, len(c.Tail)).Draw(t, "tailsyncat")
		c.Tail = append(c.Tail[:at], append([]concOp{{K: "sync"}}, c.Tail[at:]...)...)
	}
	return c
}

func concTest(t *testing.T, prop string) {
	st := newStats(prop)
	defer st.write()
	reps := 25
	if vTier == "thorough" {
		reps = 120
	}
	reported := false
	report := func(slot string, c concCase, p, sig, msg string, rep int) {
		if reported {
			return // after a first failure the node pool of this process may hold a node twice: later failures prove nothing new
		}
		reported = true
		vReport(vViolation{Property: p, Slot: slot, Signature: sig, Message: fmt.Sprintf("%s (repetition %d of %d)", msg, rep+1, c.Reps), Replay: c})
	}
	if vReplay != "" {
		var c concCase
		if err := vLoadReplay(&c); err != nil {
			t.Fatalf("replay: %v", err)
		}
		if c.Reps < 30000 {
			c.Reps = 30000
		}
		for r := 0; r < c.Reps; r++ {
			st.eval()
			if p, sig, msg, _ := runConcOnce(c, true); sig != "" && p == prop {
				report("replay:"+prop, c, p, sig, msg, r)
				t.Fatalf("%s violated [%s]: %s", p, sig, msg)
			}
		}
		return
	}
	rapid.Check(t, func(t *rapid.T) {
		c := genConcCase(t, prop)
		c.Reps = reps
		st.eval()
		maxG := 0
		for r := 0; r < c.Reps; r++ {
			p, sig, msg, g := runConcOnce(c, true)
			if g > maxG {
				maxG = g
			}
			if sig == "" {
				continue
			}
			if p != prop {
				st.class("ended-by-other-property-oracle")
				return
			}
			report("rapid:"+prop, c, p, sig, msg, r)
			t.Fatalf("%s violated [%s]: %s", p, sig, msg)
		}
		st.classN("executions", int64(c.Reps))
		st.class(fmt.Sprintf("goroutines-%d", maxG))
		closes := false
		for _, o := range c.Tail {
			if o.K == "close" {
				closes = true
			}
		}
		if closes {
			st.class("parent-closed-with-slices-outstanding")
		}
		if len(c.Kids) > 0 && c.Kids[0].G > 0 {
			st.class("family-stripe")
		}
		if maxG >= 3 {
			b, _ := json.Marshal(concCase{Cap: c.Cap, Writes: c.Writes, Pre: c.Pre, Kids: c.Kids, Tail: c.Tail})
			if st.nontrivial(string(b)) {
				st.sample(c)
			}
		}
	})
}

func TestVerifC02Conc(t *testing.T) { concTest(t, "C02") }
func TestVerifC03Conc(t *testing.T) { concTest(t, "C03") }
