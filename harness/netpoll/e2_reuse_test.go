//go:build go1.18

// E2 scenario "reuse" (C10): connection A is closed, its poller slot and descriptor number are
// re-used by connection B, and stale calls keep arriving on A. Judged on the bystander B only.
package netpoll

import (
	"context"
	"fmt"
	"os"
	"sync/atomic"
	"syscall"
	"testing"
	"time"

	vs "github.com/cloudwego/netpoll/internal/verifsched"
	"pgregory.net/rapid"
)

type reuseScn struct {
	AHandler   bool     `json:"a_handler"`
	AWrites    []int    `json:"a_writes"`
	AClose     string   `json:"a_close"` // user, peer
	BWrites    []int    `json:"b_writes"`
	BEarly     bool     `json:"b_early,omitempty"` // B is opened before A is closed (no reuse, plain isolation)
	Stale      []string `json:"stale"`
	StaleEarly bool     `json:"stale_early,omitempty"` // stale calls may start before B exists
	Kick       bool     `json:"kick,omitempty"`        // Trigger the poller after A's close so that the slot is spliced back before B opens
	Fill       bool     `json:"fill,omitempty"`        // the poller's spare slots are used up before B opens (B's alloc sits on a block boundary)
	HoldBatch  bool     `json:"hold_batch,omitempty"`  // the poller is held between the fetch and the dispatch of the batch with A's close event until B is open
}

var reuseStaleOps = []string{"release", "close", "next", "peek", "skip", "len", "flush", "mallocflush", "write", "wbinary", "setonrequest", "addcb", "settimeout", "isactive", "slice", "detach", "readbyte", "until"}

func genReuseScn(t *rapid.T, excl map[string]bool) reuseScn {
	s := reuseScn{}
	s.AHandler = rapid.Bool().Draw(t, "ahandler")
	for i, n := 0, rapid.IntRange(0, 3).Draw(t, "nawrites"); i < n; i++ {
		s.AWrites = append(s.AWrites, rapid.IntRange(1, 30).Draw(t, "aw"))
	}
	s.AClose = rapid.SampledFrom([]string{"user", "peer", "both", "both"}).Draw(t, "aclose")
	s.Fill = rapid.IntRange(0, 2).Draw(t, "fill") == 0
	s.HoldBatch = rapid.IntRange(0, 2).Draw(t, "holdbatch") == 0
	for i, n := 0, rapid.IntRange(1, 4).Draw(t, "nbwrites"); i < n; i++ {
		s.BWrites = append(s.BWrites, rapid.IntRange(1, 30).Draw(t, "bw"))
	}
	s.BEarly = rapid.IntRange(0, 4).Draw(t, "bearly") == 0
	s.StaleEarly = rapid.Bool().Draw(t, "staleearly")
	s.Kick = rapid.IntRange(0, 3).Draw(t, "kick") > 0
	for i, n := 0, rapid.IntRange(1, 5).Draw(t, "nstale"); i < n; i++ {
		op := rapid.SampledFrom(reuseStaleOps).Draw(t, "stale")
		if op == "release" && excl["F8"] {
			op = "len"
		}
		s.Stale = append(s.Stale, op)
	}
	return s
}

type reuseOutcome struct {
	w           *e2World
	a, b        *connection
	bGot        []byte
	bSent       int
	aGot        int
	stalePanics []string
	reusedSlot  bool
	reusedFD    bool
	staleAfterB int
	parked      []string
	livelock    bool
	bState      int32
}

const reuseBBase = 1 << 20

func runReuse(t *rapid.T, s reuseScn, replay []vs.Step) *reuseOutcome {
	w := newE2World(t, 1, replay)
	o := &reuseOutcome{w: w}
	ar, aw := w.socketpair()
	a := new(connection)
	o.a = a
	aopts := &options{}
	if s.AHandler {
		aopts.onRequest = func(ctx context.Context, conn Connection) error {
			w.ev("A:req")
			n := conn.Reader().Len()
			conn.Reader().Skip(n)
			conn.Reader().Release()
			o.aGot += n
			return nil
		}
	}
	a.init(&netFD{fd: ar, network: "unix", remoteAddr: &UnixAddr{}, localAddr: &UnixAddr{}}, aopts)
	a.AddCloseCallback(func(Connection) error { w.ev("A:cb"); return nil })
	if s.Fill {
		// use up the spare slots of the poller: the next alloc (B's) has to get its slot from somewhere else
		for w.polls[0].opcache.first != nil {
			w.polls[0].Alloc()
		}
	}
	if s.HoldBatch {
		// close/reopen placed between the poller's fetch and its dispatch: once A's peer has closed, the poller is
		// held at the first slot-token step of its batch until B is open (or nobody else can move)
		pDo := e2PointID("fd_operator.go", "CompareAndSwapInt32(&op.state, 1, 2)")
		w.hold = func(act *vs.Actor) bool {
			return act.Name == "poller0" && act.Point() == pDo && w.count("A:peer-close") > 0 && w.count("B:open") == 0
		}
	}
	aClosed := func() bool { return !a.IsActive() && w.count("A:cb") > 0 && atomic.LoadUint32(&a.closed) > 0 }
	var b *connection
	bOpen := false
	openB := func() {
		br, bw := w.socketpair()
		if br == ar {
			o.reusedFD = true
		}
		b = new(connection)
		o.b = b
		bopts := &options{}
		bopts.onRequest = func(ctx context.Context, conn Connection) error {
			w.ev("B:req")
			n := conn.Reader().Len()
			p, _ := conn.Reader().Next(n)
			o.bGot = append(o.bGot, p...)
			conn.Reader().Release()
			return nil
		}
		b.init(&netFD{fd: br, network: "unix", remoteAddr: &UnixAddr{}, localAddr: &UnixAddr{}}, bopts)
		b.AddCloseCallback(func(Connection) error { w.ev("B:cb"); return nil })
		if b.operator == a.operator {
			o.reusedSlot = true
		}
		bOpen = true
		w.ev("B:open")
		w.s.Go("peerB", false, func() {
			for _, k := range s.BWrites {
				vs.Yield(-60)
				n, _ := syscall.Write(bw, keyedBytes(reuseBBase+o.bSent, k))
				if n > 0 {
					o.bSent += n
				}
				w.ev("B:peer-write")
			}
			vs.Yield(-60)
			w.peerClose(bw)
			w.ev("B:peer-close")
		})
	}
	w.s.Go("peerA", false, func() {
		for _, k := range s.AWrites {
			vs.Yield(-61)
			syscall.Write(aw, make([]byte, k))
			w.ev("A:peer-write")
		}
		if s.AClose == "peer" || s.AClose == "both" {
			vs.Yield(-61)
			w.peerClose(aw)
			w.ev("A:peer-close")
		}
	})
	w.s.Go("userA", false, func() {
		if s.AClose == "user" || s.AClose == "both" {
			vs.Yield(-62)
			w.ev("A:user-close")
			a.Close()
		} else if !s.AHandler {
			// closed by the peer without callbacks: the user has to close to release the resources
			vs.WaitFor(-62, func() bool { return !a.IsActive() })
			w.ev("A:user-close")
			a.Close()
		}
	})
	w.s.Go("opener", false, func() {
		if !s.BEarly {
			vs.WaitFor(-63, aClosed)
			if s.Kick {
				// wake the poller so that it finishes a batch and splices A's slot back (Trigger is public API)
				w.polls[0].Trigger()
				vs.WaitFor(-63, func() bool { return len(w.polls[0].opcache.freelist) == 0 })
			}
		}
		vs.Yield(-63)
		openB()
	})
	w.s.Go("stale", false, func() {
		if !s.StaleEarly {
			vs.WaitFor(-64, func() bool { return bOpen && aClosed() })
		} else {
			vs.WaitFor(-64, aClosed) // A's teardown has completed: from here on every call on A is a stale call
		}
		for _, op := range s.Stale {
			vs.Yield(-65)
			if bOpen && !a.IsActive() {
				o.staleAfterB++
			}
			w.ev("stale:" + op)
			func() {
				defer func() {
					if p := recover(); p != nil {
						o.stalePanics = append(o.stalePanics, fmt.Sprintf("%s: %v", op, p))
						w.ev("stale-panic:" + op)
					}
				}()
				switch op {
				case "release":
					a.Reader().Release()
				case "close":
					a.Close()
				case "detach":
					a.Detach()
				case "next":
					a.Reader().Next(1)
				case "peek":
					a.Reader().Peek(1)
				case "skip":
					a.Reader().Skip(1)
				case "readbyte":
					a.Reader().ReadByte()
				case "until":
					a.Reader().Until('\n')
				case "slice":
					a.Reader().Slice(1)
				case "len":
					a.Reader().Len()
				case "flush":
					a.Writer().Flush()
				case "mallocflush":
					a.Writer().Malloc(8)
					a.Writer().Flush()
				case "write":
					a.Write([]byte("stale"))
				case "wbinary":
					a.Writer().WriteBinary(make([]byte, 5000))
					a.Writer().Flush()
				case "setonrequest":
					a.SetOnRequest(func(ctx context.Context, conn Connection) error { w.ev("A:late-req"); return nil })
				case "addcb":
					a.AddCloseCallback(func(Connection) error { w.ev("A:late-cb"); return nil })
				case "settimeout":
					a.SetReadTimeout(time.Second)
					a.SetWriteTimeout(time.Second)
				case "isactive":
					a.IsActive()
				}
			}()
		}
	})
	parked, livelock := w.run(40000)
	o.livelock = livelock
	for _, p := range parked {
		o.parked = append(o.parked, p.Name)
	}
	if b != nil {
		o.bState = b.operator.state
	}
	return o
}

func judgeReuse(s reuseScn, o *reuseOutcome) (sig, msg string) {
	w := o.w
	logs := fmt.Sprint(w.names())
	if len(w.s.Crashes) > 0 {
		return "process-crash", "a panic escaped a goroutine netpoll starts itself: " + firstLine(w.s.Crashes[0]) + " | events: " + logs
	}
	if o.livelock {
		return "livelock", fmt.Sprintf("the schedule did not quiesce (bystander slot state %d, stale panics %v) | events: %s", o.bState, o.stalePanics, logs)
	}
	if len(o.parked) > 0 {
		return "parked", fmt.Sprintf("actors blocked at quiescence: %v | events: %s | %s", o.parked, logs, w.s.Describe())
	}
	if o.b == nil {
		return "", ""
	}
	// the bystander received exactly its own peer's bytes
	exp := keyedBytes(reuseBBase, o.bSent)
	if string(o.bGot) != string(exp) {
		return "bystander-data", fmt.Sprintf("B's handler got %d bytes, its peer sent %d (first diff at %d; stale panics %v; B slot state %d) | events: %s", len(o.bGot), o.bSent, firstDiff(o.bGot, exp), o.stalePanics, o.bState, logs)
	}
	if n := w.count("B:cb"); n != 1 {
		return "bystander-callbacks", fmt.Sprintf("B's close callback ran %d times after its peer closed (stale panics %v) | events: %s", n, o.stalePanics, logs)
	}
	if w.count("A:cb") > 1 {
		return "a-callbacks-twice", "A's close callback ran twice | events: " + logs
	}
	if o.b.IsActive() {
		return "bystander-not-closed", "B is still active after its peer closed | events: " + logs
	}
	return "", ""
}

func reuseProperty(st *vStats) func(t *rapid.T) {
	excl := vExclusions()
	return func(t *rapid.T) {
		s := genReuseScn(t, excl)
		o := runReuse(t, s, nil)
		defer o.w.close()
		st.eval()
		e2TraceHash(st, o.w)
		if sig, msg := judgeReuse(s, o); sig != "" && e2Confirmed(st, o.w, func(d []vs.Step) string {
			o2 := runReuse(nil, s, d)
			defer o2.w.close()
			s2, _ := judgeReuse(s, o2)
			return s2
		}) {
			rep := e2Replay{Scenario: s, Strategy: o.w.strategy, Decisions: o.w.trace(), Events: o.w.names(), TraceTail: o.w.describeTrace(40)}
			vReport(vViolation{Property: "C10", Slot: "rapid:C10", Signature: sig, Message: msg, Replay: rep})
			t.Fatalf("C10 violated [%s]: %s\nscenario: %+v\nlast steps:\n%s", sig, msg, s, o.w.describeTrace(30))
		}
		if o.reusedSlot {
			st.class("slot-reused")
		}
		if o.reusedFD {
			st.class("fd-number-reused")
		}
		if s.Fill {
			st.class("spare-slots-exhausted")
		}
		if o.w.heldBack > 0 {
			st.class("batch-held-across-reopen")
		}
		if len(o.stalePanics) > 0 {
			st.class("stale-call-panicked")
		}
		if excl["F8"] {
			st.excluded("F8-stale-release")
		}
		st.classN("steps", int64(len(o.w.s.Trace)))
		if o.reusedSlot && o.staleAfterB > 0 {
			st.class("nontrivial")
			if st.nontrivial(fmt.Sprintf("%+v|%v", s, o.w.names())) {
				st.sample(map[string]interface{}{"scenario": s, "events": o.w.names(), "fd_reused": o.reusedFD})
			}
		}
	}
}

func TestVerifC10(t *testing.T) {
	st := newStats("C10")
	defer st.write()
	if vReplay != "" {
		var rec struct {
			Scenario  reuseScn  `json:"scenario"`
			Decisions []vs.Step `json:"decisions"`
		}
		if err := vLoadReplay(&rec); err != nil {
			t.Fatalf("replay: %v", err)
		}
		o := runReuse(nil, rec.Scenario, rec.Decisions)
		defer o.w.close()
		st.eval()
		if sig, msg := judgeReuse(rec.Scenario, o); sig != "" {
			vReport(vViolation{Property: "C10", Slot: "replay:C10", Signature: sig, Message: msg, Replay: e2Replay{Scenario: rec.Scenario, Decisions: o.w.trace(), Events: o.w.names()}})
			t.Fatalf("C10 violated [%s]: %s", sig, msg)
		}
		return
	}
	// canonical reproducer of known finding F8: stale Release after slot reuse starves the bystander
	if os.Getenv("VERIF_REGRESS") != "" && vExclusions()["F8"] {
		s := reuseScn{AHandler: true, AWrites: []int{3}, AClose: "user", BWrites: []int{5}, Stale: []string{"release"}, Kick: true}
		o := runReuse(nil, s, nil)
		sig, msg := judgeReuse(s, o)
		o.w.close()
		st.eval()
		st.class("known-reproducer")
		if sig != "" && len(o.stalePanics) > 0 {
			vKnown("C10", "F8", "a stale Release() on a closed connection whose poller slot was re-used takes the new owner's slot token, panics and never returns it: "+msg)
		} else if sig != "" {
			vReport(vViolation{Property: "C10", Slot: "known-reproducer:F8", Signature: sig, Message: msg, Replay: e2Replay{Scenario: s, Decisions: o.w.trace(), Events: o.w.names()}})
		}
	}
	rapid.Check(t, reuseProperty(st))
}
