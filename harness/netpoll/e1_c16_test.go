//go:build go1.18

// C16: the stream adapters (NewReader / NewWriter / NewIOReader / NewIOWriter) against scripted
// io.Reader / io.Writer objects that do everything the io contracts allow and nothing they forbid.
package netpoll

import (
	"bytes"
	"errors"
	"fmt"
	"io"
	"testing"

	"pgregory.net/rapid"
)

var errScripted = errors.New("scripted source error")

type srcStep struct {
	N   int `json:"n"`   // bytes offered by this Read (0 allowed)
	Err int `json:"err"` // 0 nil, 1 io.EOF, 2 custom (returned together with the N bytes)
}

// scriptedReader serves a position-keyed stream according to a script.
type scriptedReader struct {
	script   []srcStep
	i        int
	left     int // bytes of the current step not yet served (when the caller's buffer was smaller)
	produced int
	calls    int
	zero     bool
	withErr  bool
	errs     int // errors returned so far
}

func (r *scriptedReader) Read(p []byte) (int, error) {
	r.calls++
	if r.i >= len(r.script) {
		// the script is over: sticky end
		r.errs++
		last := r.script[len(r.script)-1]
		if last.Err == 2 {
			return 0, errScripted
		}
		return 0, io.EOF
	}
	st := r.script[r.i]
	if r.left == 0 {
		r.left = st.N
	}
	n := r.left
	if n > len(p) {
		n = len(p)
	}
	copy(p, keyedBytes(r.produced, n))
	r.produced += n
	r.left -= n
	if n == 0 {
		r.zero = true
	}
	if r.left > 0 {
		return n, nil // rest of this step is served by the next Read
	}
	r.i++
	switch st.Err {
	case 1:
		r.errs++
		if n > 0 {
			r.withErr = true
		}
		return n, io.EOF
	case 2:
		r.errs++
		if n > 0 {
			r.withErr = true
		}
		return n, errScripted
	}
	return n, nil
}

type rdOp struct {
	K string `json:"k"`
	N int    `json:"n"`
	D int    `json:"d,omitempty"`
}

type c16ReadCase struct {
	Script []srcStep `json:"script"`
	Ops    []rdOp    `json:"ops"`
}

// runC16Read executes the case; returns a violation (signature, message) or "".
func runC16Read(c c16ReadCase) (sig, msg string, src *scriptedReader) {
	script := append([]srcStep(nil), c.Script...)
	// the script always ends in an error so that the source is finite
	if len(script) == 0 || script[len(script)-1].Err == 0 {
		script = append(script, srcStep{N: 0, Err: 1})
	}
	src = &scriptedReader{script: script}
	r := NewReader(src)
	consumed := 0
	defer func() {
		if p := recover(); p != nil {
			sig, msg = "panic", fmt.Sprintf("panic: %v", p)
		}
	}()
	total := 0
	for _, s := range script {
		total += s.N
	}
	for i, op := range c.Ops {
		n := op.N
		desc := fmt.Sprintf("op %d %s(%d)", i, op.K, n)
		var p []byte
		var err error
		consume := true
		errsBefore := src.errs
		switch op.K {
		case "next":
			p, err = r.Next(n)
		case "peek":
			p, err = r.Peek(n)
			consume = false
		case "skip":
			err = r.Skip(n)
			if err == nil {
				p = keyedBytes(consumed, n)
			}
		case "rbin":
			p, err = r.ReadBinary(n)
		case "rstr":
			var s string
			s, err = r.ReadString(n)
			p = []byte(s)
		case "rbyte":
			n = 1
			var b byte
			b, err = r.ReadByte()
			if err == nil {
				p = []byte{b}
			}
		case "slice":
			var sl Reader
			sl, err = r.Slice(n)
			if err == nil {
				p, err = sl.Next(n)
				p = append([]byte(nil), p...)
				sl.Release()
			}
		case "release":
			if e := r.Release(); e != nil {
				return "release-error", fmt.Sprintf("%s: %v", desc, e), src
			}
			continue
		case "len":
			if l := r.Len(); l != src.produced-consumed {
				return "len", fmt.Sprintf("%s: Len()=%d, the source produced %d and %d were consumed", desc, l, src.produced, consumed), src
			}
			continue
		case "until":
			buffered := keyedBytes(consumed, src.produced-consumed)
			idx := bytes.IndexByte(buffered, byte(op.D))
			p, err = r.Until(byte(op.D))
			if idx < 0 {
				if err == nil {
					return "until", fmt.Sprintf("%s found a delimiter that is not buffered", desc), src
				}
				continue
			}
			if err != nil || !bytes.Equal(p, buffered[:idx+1]) {
				return "until", fmt.Sprintf("%s returned %d bytes, %v; want %d bytes", desc, len(p), err, idx+1), src
			}
			consumed += idx + 1
			continue
		}
		if n <= 0 {
			continue
		}
		if err != nil {
			// a failure is only legal when the source reported an error during this very call
			// (the adapter surfaces it at once; the bytes that came with it stay readable, see below)
			if src.errs == errsBefore {
				return "error-without-source", fmt.Sprintf("%s failed with %v although the source reported no error during the call (%d bytes produced, %d consumed)", desc, err, src.produced, consumed), src
			}
			if !errors.Is(err, ErrEOF) && !errors.Is(err, errScripted) {
				return "error-class", fmt.Sprintf("%s failed with %v: neither ErrEOF nor the source's own error", desc, err), src
			}
			// the bytes produced with or before the error stay readable
			if l := r.Len(); l != src.produced-consumed {
				return "lost-on-error", fmt.Sprintf("%s failed with %v; Len()=%d but the source had produced %d bytes of which %d were consumed", desc, err, l, src.produced, consumed), src
			}
			continue
		}
		want := keyedBytes(consumed, n)
		if !bytes.Equal(p, want) {
			return "stream", fmt.Sprintf("%s returned %d bytes that differ from the source stream at offset %d (first diff %d)", desc, len(p), consumed, firstDiff(p, want)), src
		}
		if consume {
			consumed += n
		}
	}
	// drain: everything the source produced is readable exactly once, in order
	for guard := 0; guard < 100000; guard++ {
		k := r.Len()
		if k == 0 {
			k = 1
		}
		p, err := r.Next(k)
		if err != nil {
			if r.Len() == 0 && src.i >= len(script) {
				break // the source is exhausted and nothing is buffered
			}
			continue // a transient source error, or bytes arrived together with the error: try again
		}
		if !bytes.Equal(p, keyedBytes(consumed, k)) {
			return "drain", fmt.Sprintf("final drain of %d bytes at offset %d differs from the source stream", k, consumed), src
		}
		consumed += k
		r.Release()
	}
	if consumed != total {
		return "drain-count", fmt.Sprintf("the source produced %d bytes in total, %d could be read", total, consumed), src
	}
	return "", "", src
}

// ---- writer side

type sinkStep struct {
	Accept int  `json:"accept"` // bytes accepted by this Write (capped by len(p)); <0: everything
	Fail   bool `json:"fail"`   // returns an error even when everything was accepted
}

type scriptedWriter struct {
	script []sinkStep
	i      int
	sink   []byte
	short  bool
}

func (w *scriptedWriter) Write(p []byte) (int, error) {
	st := sinkStep{Accept: -1}
	if w.i < len(w.script) {
		st = w.script[w.i]
	}
	w.i++
	n := st.Accept
	if n < 0 || n > len(p) {
		n = len(p)
	}
	w.sink = append(w.sink, p[:n]...)
	if n < len(p) {
		w.short = true
		return n, io.ErrShortWrite
	}
	if st.Fail {
		return n, errScripted
	}
	return n, nil
}

type wrOp struct {
	K string `json:"k"`
	N int    `json:"n"`
}

type c16WriteCase struct {
	Script []sinkStep `json:"script"`
	Ops    []wrOp     `json:"ops"`
}

func runC16Write(c c16WriteCase) (sig, msg string, dst *scriptedWriter) {
	dst = &scriptedWriter{script: c.Script}
	w := NewWriter(dst)
	var submitted []byte // flushed into the adapter so far (stream the sink must reproduce)
	var pending []byte
	off := 0
	defer func() {
		if p := recover(); p != nil {
			sig, msg = "panic", fmt.Sprintf("panic: %v", p)
		}
	}()
	gen := func(n int) []byte {
		d := keyedBytes(off, n)
		off += n
		return d
	}
	for i, op := range c.Ops {
		desc := fmt.Sprintf("op %d %s(%d)", i, op.K, op.N)
		switch op.K {
		case "malloc":
			p, err := w.Malloc(op.N)
			if err != nil || len(p) != op.N {
				return "malloc", fmt.Sprintf("%s: %d bytes, %v", desc, len(p), err), dst
			}
			d := gen(op.N)
			copy(p, d)
			pending = append(pending, d...)
		case "wbin":
			d := gen(op.N)
			if n, err := w.WriteBinary(append([]byte(nil), d...)); err != nil || n != op.N {
				return "write", fmt.Sprintf("%s = %d, %v", desc, n, err), dst
			}
			pending = append(pending, d...)
		case "wstr":
			d := gen(op.N)
			if n, err := w.WriteString(string(d)); err != nil || n != op.N {
				return "write", fmt.Sprintf("%s = %d, %v", desc, n, err), dst
			}
			pending = append(pending, d...)
		case "wbyte":
			d := gen(1)
			if err := w.WriteByte(d[0]); err != nil {
				return "write", fmt.Sprintf("%s: %v", desc, err), dst
			}
			pending = append(pending, d[0])
		case "ack":
			n := op.N
			if n > len(pending) {
				n = len(pending)
			}
			if err := w.MallocAck(n); err != nil {
				return "ack", fmt.Sprintf("%s: %v", desc, err), dst
			}
			pending = pending[:n]
		case "flush":
			submitted = append(submitted, pending...)
			pending = nil
			err := w.Flush()
			if len(dst.sink) > len(submitted) || !bytes.Equal(dst.sink, submitted[:len(dst.sink)]) {
				return "sink-not-prefix", fmt.Sprintf("%s: the sink (%d bytes) is not a prefix of the submitted stream (%d bytes): first diff %d", desc, len(dst.sink), len(submitted), firstDiff(dst.sink, submitted)), dst
			}
			if err == nil && !bytes.Equal(dst.sink, submitted) {
				return "flush-nil-incomplete", fmt.Sprintf("%s returned nil but the sink has %d of %d submitted bytes", desc, len(dst.sink), len(submitted)), dst
			}
		}
		if ml := w.MallocLen(); ml != len(pending) {
			return "malloclen", fmt.Sprintf("%s: MallocLen()=%d, model %d", desc, ml, len(pending)), dst
		}
	}
	// successive Flush calls finally deliver everything, each byte once (the script is finite: later writes accept all)
	submitted = append(submitted, pending...)
	for i := 0; i < len(c.Script)+3; i++ {
		if err := w.Flush(); err == nil {
			break
		}
	}
	if !bytes.Equal(dst.sink, submitted) {
		return "sink-final", fmt.Sprintf("after the final flushes the sink has %d bytes, %d were submitted (first diff %d)", len(dst.sink), len(submitted), firstDiff(dst.sink, submitted)), dst
	}
	return "", "", dst
}

// ---- io adapters over a LinkBuffer

type c16IOCase struct {
	Writes []int `json:"writes"`
	Reads  []int `json:"reads"`
}

func runC16IO(c c16IOCase) (sig, msg string) {
	defer func() {
		if p := recover(); p != nil {
			sig, msg = "panic", fmt.Sprintf("panic: %v", p)
		}
	}()
	lb := NewLinkBuffer()
	iw := NewIOWriter(lb)
	ir := NewIOReader(lb)
	written, read := 0, 0
	for i := 0; i < len(c.Writes) || i < len(c.Reads); i++ {
		if i < len(c.Writes) {
			d := keyedBytes(written, c.Writes[i])
			n, err := iw.Write(d)
			if err != nil || n != len(d) {
				return "io-write", fmt.Sprintf("Write(%d) = %d, %v", len(d), n, err)
			}
			written += n
			// an io.Writer must not retain p: the caller is free to reuse its slice at once (io.Copy does)
			for j := range d {
				d[j] = 0x5A
			}
			if lb.Len() != written-read {
				return "io-write-visible", fmt.Sprintf("after Write the buffer holds %d bytes, want %d", lb.Len(), written-read)
			}
		}
		if i < len(c.Reads) {
			p := make([]byte, c.Reads[i])
			n, err := ir.Read(p)
			want := c.Reads[i]
			if want > written-read {
				want = written - read
			}
			if len(p) == 0 {
				if n != 0 || err != nil {
					return "io-read-empty", fmt.Sprintf("Read(empty) = %d, %v", n, err)
				}
				continue
			}
			if want == 0 {
				if n != 0 || err != io.EOF {
					return "io-read-eof", fmt.Sprintf("Read on an empty buffer = %d, %v; want 0, io.EOF", n, err)
				}
				continue
			}
			if err != nil || n != want || !bytes.Equal(p[:n], keyedBytes(read, n)) {
				return "io-read", fmt.Sprintf("Read(%d) with %d buffered = %d, %v (content ok: %v)", len(p), written-read, n, err, bytes.Equal(p[:n], keyedBytes(read, n)))
			}
			read += n
		}
	}
	return "", ""
}

func genC16Size(t *rapid.T, label string) int {
	return rapid.OneOf(rapid.IntRange(0, 3), rapid.IntRange(0, 300), rapid.IntRange(4090, 4100), rapid.IntRange(0, 5000), rapid.IntRange(8000, 12000)).Draw(t, label)
}

func TestVerifC16(t *testing.T) {
	st := newStats("C16")
	defer st.write()
	if vReplay != "" {
		var rec struct {
			Kind  string       `json:"kind"`
			Read  c16ReadCase  `json:"read"`
			Write c16WriteCase `json:"write"`
			IO    c16IOCase    `json:"io"`
		}
		if err := vLoadReplay(&rec); err != nil {
			t.Fatalf("replay: %v", err)
		}
		var sig, msg string
		switch rec.Kind {
		case "read":
			sig, msg, _ = runC16Read(rec.Read)
		case "write":
			sig, msg, _ = runC16Write(rec.Write)
		default:
			sig, msg = runC16IO(rec.IO)
		}
		st.eval()
		if sig != "" {
			vReport(vViolation{Property: "C16", Slot: "replay:C16", Signature: sig, Message: msg, Replay: rec})
			t.Fatalf("C16 violated [%s]: %s", sig, msg)
		}
		return
	}
	rapid.Check(t, func(t *rapid.T) {
		kind := rapid.SampledFrom([]string{"read", "read", "read", "write", "write", "io"}).Draw(t, "kind")
		st.eval()
		switch kind {
		case "read":
			c := c16ReadCase{}
			for i, n := 0, rapid.IntRange(1, 8).Draw(t, "nsteps"); i < n; i++ {
				c.Script = append(c.Script, srcStep{N: genC16Size(t, "chunk"), Err: rapid.SampledFrom([]int{0, 0, 0, 0, 1, 2}).Draw(t, "err")})
			}
			for i, n := 0, rapid.IntRange(1, 10).Draw(t, "nops"); i < n; i++ {
				op := rdOp{K: rapid.SampledFrom([]string{"next", "next", "peek", "skip", "rbin", "rstr", "rbyte", "slice", "release", "len", "until"}).Draw(t, "op")}
				op.N = genC16Size(t, "n")
				op.D = rapid.IntRange(0, 255).Draw(t, "delim")
				c.Ops = append(c.Ops, op)
			}
			sig, msg, src := runC16Read(c)
			if sig != "" {
				vReport(vViolation{Property: "C16", Slot: "rapid:C16", Signature: "reader:" + sig, Message: msg, Replay: map[string]interface{}{"kind": "read", "read": c}})
				t.Fatalf("C16 violated [reader:%s]: %s\ncase: %+v", sig, msg, c)
			}
			st.class("reader")
			if src.zero || src.withErr {
				if src.zero {
					st.class("zero-byte-read")
				}
				if src.withErr {
					st.class("data-with-error")
				}
				if st.nontrivial(fmt.Sprintf("r%+v", c)) {
					st.sample(map[string]interface{}{"kind": "read", "case": c})
				}
			}
		case "write":
			c := c16WriteCase{}
			for i, n := 0, rapid.IntRange(0, 6).Draw(t, "nsteps"); i < n; i++ {
				c.Script = append(c.Script, sinkStep{Accept: rapid.OneOf(rapid.Just(-1), rapid.IntRange(0, 5000), rapid.IntRange(0, 10)).Draw(t, "accept"), Fail: rapid.IntRange(0, 5).Draw(t, "fail") == 0})
			}
			for i, n := 0, rapid.IntRange(1, 12).Draw(t, "nops"); i < n; i++ {
				c.Ops = append(c.Ops, wrOp{K: rapid.SampledFrom([]string{"malloc", "malloc", "wbin", "wstr", "wbyte", "ack", "flush", "flush"}).Draw(t, "op"), N: genC16Size(t, "n")})
			}
			sig, msg, dst := runC16Write(c)
			if sig != "" {
				vReport(vViolation{Property: "C16", Slot: "rapid:C16", Signature: "writer:" + sig, Message: msg, Replay: map[string]interface{}{"kind": "write", "write": c}})
				t.Fatalf("C16 violated [writer:%s]: %s\ncase: %+v", sig, msg, c)
			}
			st.class("writer")
			if dst.short {
				st.class("short-write")
				if st.nontrivial(fmt.Sprintf("w%+v", c)) {
					st.sample(map[string]interface{}{"kind": "write", "case": c})
				}
			}
		default:
			c := c16IOCase{}
			for i, n := 0, rapid.IntRange(1, 6).Draw(t, "n"); i < n; i++ {
				c.Writes = append(c.Writes, genC16Size(t, "w"))
				c.Reads = append(c.Reads, genC16Size(t, "r"))
			}
			if sig, msg := runC16IO(c); sig != "" {
				vReport(vViolation{Property: "C16", Slot: "rapid:C16", Signature: sig, Message: msg, Replay: map[string]interface{}{"kind": "io", "io": c}})
				t.Fatalf("C16 violated [%s]: %s\ncase: %+v", sig, msg, c)
			}
			st.class("io-adapters")
		}
	})
}
