//go:build go1.18

// E1 bufmachine: LinkBuffer against a FIFO byte-queue model, with the recording pool.
// A case is plain data (e1Case); executing it is a pure function of the case and the code.
package netpoll

import (
	"bytes"
	"fmt"
	"strings"

	"github.com/bytedance/gopkg/lang/mcache"
)

const (
	e1Writer = 0
	e1Input  = 1
	e1Child  = 2
)

type e1Op struct {
	K string `json:"k"`
	B int    `json:"b"`
	N int    `json:"n,omitempty"`
	M int    `json:"m,omitempty"`
	X int    `json:"x,omitempty"`
}

func (o e1Op) String() string { return fmt.Sprintf("%s[b%d](%d,%d,%d)", o.K, o.B, o.N, o.M, o.X) }

type e1Case struct {
	Prop string `json:"prop"`
	Cap  int    `json:"cap"`
	Ops  []e1Op `json:"ops"`
}

type e1Viol struct {
	Prop string
	Sig  string
	Msg  string
}

type e1Res struct {
	p, snap []byte
	kind    string
	multi   bool
	born    int
}

type e1Mem struct { // caller-owned or private memory that netpoll must never free or write
	p    []byte
	snap []byte
	s    string // when the memory was passed/returned as a string
	kind string
}

type e1Buf struct {
	id        int
	lb        *LinkBuffer
	mode      int
	readable  []byte
	pending   []byte
	appendWin bool // Append since the last Flush: no reads, no MallocAck, no WriteDirect
	directWin bool // WriteDirect since the last Flush: no WriteBinary/WriteString/Append
	binWin    bool // WriteBinary/WriteString/Append since the last Flush: no WriteDirect
	callerEnd int  // end offset (in pending) of the last caller-owned region
	dead      bool
	results   []*e1Res
	parent    *e1Buf
	depth     int
	peekMulti bool // a multi-node Peek result is live (exclusion bookkeeping)
}

type e1World struct {
	prop   string
	cap    int
	bufs   []*e1Buf
	mems   []*e1Mem
	wr     int
	step   int
	viol   *e1Viol
	other  bool // a violation of another property's oracle ended the case
	budget int  // bytes still allowed to be written in this case

	// exclusions for findings listed as `known` (empty when all are fixed)
	excl map[string]bool
	// classification
	fl map[string]bool
}

func newE1World(prop string, capv int, excl map[string]bool) *e1World {
	mcache.SetRecording(true)
	LinkBufferCap = capv
	return &e1World{prop: prop, cap: capv, excl: excl, fl: map[string]bool{}, budget: 3 << 20}
}

func (w *e1World) fail(prop, sig, format string, a ...interface{}) {
	if w.viol != nil || w.other {
		return
	}
	if w.prop != "ALL" && prop != w.prop && prop != "ANY" {
		w.other = true
		return
	}
	if prop == "ANY" {
		prop = w.prop
	}
	w.viol = &e1Viol{Prop: prop, Sig: sig, Msg: fmt.Sprintf(format, a...)}
}

func (w *e1World) live(mode int) []*e1Buf {
	var r []*e1Buf
	for _, b := range w.bufs {
		if !b.dead && (mode < 0 || b.mode == mode) {
			r = append(r, b)
		}
	}
	return r
}

func (w *e1World) gen(n int) []byte {
	p := keyedBytes(w.wr, n)
	w.wr += n
	w.budget -= n
	return p
}

// in-package peeks used for boundary-biased generation (never for oracles)
func (b *e1Buf) readNodeLeft() int {
	if b.lb == nil || b.lb.read == nil {
		return -1
	}
	return b.lb.read.Len()
}

func (b *e1Buf) writeNodeFree() int {
	if b.lb == nil || b.lb.write == nil {
		return -1
	}
	return cap(b.lb.write.buf) - b.lb.write.malloc
}

func (b *e1Buf) track(w *e1World, p []byte, kind string, multi bool) {
	if len(p) == 0 {
		return
	}
	b.results = append(b.results, &e1Res{p: p, snap: append([]byte(nil), p...), kind: kind, multi: multi, born: w.step})
	w.fl["res:"+kind] = true
}

func (b *e1Buf) dropResults() {
	b.results = nil
	b.peekMulti = false
}

func (w *e1World) private(p []byte, s string, kind string) {
	m := &e1Mem{p: p, s: s, kind: kind}
	if s != "" {
		m.snap = []byte(s)
	} else {
		m.snap = append([]byte(nil), p...)
	}
	w.mems = append(w.mems, m)
}

// apply executes one operation against the implementation and the model.
func (w *e1World) apply(op e1Op) {
	w.step++
	defer func() {
		if r := recover(); r != nil {
			w.fail("ANY", "panic:"+op.K, "panic in %v: %v", op, r)
		}
	}()
	if op.K == "new" {
		w.opNew(op)
		return
	}
	if op.B < 0 || op.B >= len(w.bufs) || w.bufs[op.B].dead {
		return // replay of a shrunk sequence may reference a buffer that no longer exists
	}
	b := w.bufs[op.B]
	lb := b.lb
	n := op.N
	switch op.K {
	// ------------------------------------------------------------ writer side
	case "malloc":
		p, err := lb.Malloc(n)
		if n <= 0 {
			if p != nil || err != nil {
				w.fail("C01", "malloc-nonpositive", "Malloc(%d) = %d bytes, %v", n, len(p), err)
			}
			return
		}
		if err != nil || len(p) != n {
			w.fail("C01", "malloc-len", "Malloc(%d) returned %d bytes, err %v", n, len(p), err)
			return
		}
		d := w.gen(n)
		copy(p, d)
		b.pending = append(b.pending, d...)
	case "wbyte":
		d := w.gen(1)
		if err := lb.WriteByte(d[0]); err != nil {
			w.fail("C01", "wbyte-err", "WriteByte: %v", err)
		}
		b.pending = append(b.pending, d[0])
	case "wbin", "wstr":
		d := w.gen(n)
		// caller memory with a generated capacity (power of two or odd)
		mem := make([]byte, n, n+op.X)
		copy(mem, d)
		var got int
		var err error
		if op.K == "wbin" {
			got, err = lb.WriteBinary(mem)
			w.private(mem, "", "caller-bin")
		} else {
			s := string(mem)
			got, err = lb.WriteString(s)
			w.private(nil, s, "caller-str")
		}
		if err != nil || got != n {
			w.fail("C01", "write-ret", "%s(%d) = %d, %v", op.K, n, got, err)
		}
		if n > 0 {
			b.pending = append(b.pending, d...)
			b.binWin = true
			if n > BinaryInplaceThreshold {
				w.fl["caller-node"] = true
			}
		}
	case "direct":
		// WriteDirect(extra, remain): insert extra at len(pending)-remain
		remain := op.M
		d := w.gen(n)
		mem := make([]byte, n, n+op.X)
		copy(mem, d)
		err := lb.WriteDirect(mem, remain)
		w.private(mem, "", "caller-direct")
		if err != nil {
			w.fail("C01", "direct-err", "WriteDirect: %v", err)
		}
		if n == 0 || remain < 0 {
			return
		}
		at := len(b.pending) - remain
		np := make([]byte, 0, len(b.pending)+n)
		np = append(np, b.pending[:at]...)
		np = append(np, d...)
		np = append(np, b.pending[at:]...)
		b.pending = np
		b.callerEnd = at + n
		b.directWin = true
		w.fl["direct"] = true
		if remain > 0 {
			w.fl["direct-split"] = true
		}
	case "ack":
		err := lb.MallocAck(n)
		if n < 0 {
			if err == nil {
				w.fail("C01", "ack-negative", "MallocAck(%d) returned nil", n)
			}
			return
		}
		if err != nil {
			w.fail("C01", "ack-err", "MallocAck(%d): %v", n, err)
		}
		if n < len(b.pending) {
			w.fl["ack-discard"] = true
			if n == 0 {
				w.fl["ack-zero"] = true
			}
			w.wr -= 0 // discarded bytes keep their positions; later bytes continue the key stream
			b.pending = b.pending[:n]
			if b.callerEnd > n {
				b.callerEnd = n
			}
		}
	case "flush":
		if err := lb.Flush(); err != nil {
			w.fail("C01", "flush-err", "Flush: %v", err)
		}
		b.readable = append(b.readable, b.pending...)
		b.pending = nil
		b.appendWin, b.directWin, b.binWin, b.callerEnd = false, false, false, 0
	case "append":
		if op.X < 0 || op.X >= len(w.bufs) || w.bufs[op.X].dead || op.X == op.B {
			return
		}
		d := w.bufs[op.X]
		total := len(d.readable) + len(d.pending)
		if err := lb.Append(d.lb); err != nil {
			w.fail("C01", "append-err", "Append: %v", err)
		}
		b.pending = append(b.pending, d.readable...)
		b.pending = append(b.pending, d.pending...)
		d.dead, d.lb = true, nil
		d.dropResults()
		if total > 0 {
			b.appendWin, b.binWin = true, true
			w.fl["append-nonempty"] = true
		}
	// ------------------------------------------------------------ input side (poller's calls)
	case "book":
		// connection.inputs + inputAck: book(bookSize,maxSize), fill k, bookAck(k)
		p := lb.book(op.N, op.M)
		if len(p) == 0 || len(p) > op.N {
			w.fail("C01", "book-len", "book(%d,%d) returned %d bytes", op.N, op.M, len(p))
			return
		}
		k := op.X
		if k > len(p) {
			k = len(p)
		}
		if k < 0 {
			k = 0
		}
		d := w.gen(k)
		copy(p, d)
		length, _ := lb.bookAck(k)
		b.readable = append(b.readable, d...)
		if length != len(b.readable) {
			w.fail("C01", "bookack-length", "bookAck(%d) reported length %d, model %d", k, length, len(b.readable))
		}
		if k == 0 {
			w.fl["bookack0"] = true
		}
	case "crelease":
		// connection.Release: tail reset when empty, then Release
		if lb.Len() == 0 {
			maxSize := lb.calcMaxSize()
			if maxSize > mallocMax {
				maxSize = mallocMax
			}
			if op.M > maxSize {
				maxSize = op.M
			}
			if lb.Len() == 0 {
				lb.resetTail(maxSize)
			}
		}
		lb.Release()
		b.dropResults()
		w.fl["release"] = true
	// ------------------------------------------------------------ reader side
	case "next", "peek":
		single := b.readNodeLeft() >= n
		var p []byte
		var err error
		if op.K == "next" {
			p, err = lb.Next(n)
		} else {
			p, err = lb.Peek(n)
		}
		if !w.checkRead(op, b, p, err, n) {
			return
		}
		if n > 0 && !single {
			w.fl["cross-read"] = true
		}
		if op.K == "next" {
			b.readable = b.readable[n:]
			b.track(w, p, "next", !single)
			if w.excl["F3"] {
				b.dropPeekMulti()
			}
		} else {
			if !single && w.excl["F2F3"] {
				w.fl["excluded-peek-multi"] = true
				return
			}
			b.track(w, p, "peek", !single)
			if !single {
				b.peekMulti = true
			}
		}
	case "skip":
		err := lb.Skip(n)
		if n <= 0 {
			if err != nil {
				w.fail("C01", "skip-nonpositive", "Skip(%d): %v", n, err)
			}
			return
		}
		if n > len(b.readable) {
			if err == nil {
				w.fail("C01", "read-beyond", "Skip(%d) with %d readable returned nil", n, len(b.readable))
			}
			return
		}
		if err != nil {
			w.fail("C01", "read-err", "Skip(%d) with %d readable: %v", n, len(b.readable), err)
			return
		}
		b.readable = b.readable[n:]
		if w.excl["F3"] {
			b.dropPeekMulti()
		}
	case "rbin", "rstr":
		var p []byte
		var err error
		single := b.readNodeLeft() >= n
		if op.K == "rbin" {
			p, err = lb.ReadBinary(n)
		} else {
			var s string
			s, err = lb.ReadString(n)
			p = []byte(s)
			if err == nil && n > 0 {
				w.private(nil, s, "private-str")
			}
		}
		if !w.checkRead(op, b, p, err, n) {
			return
		}
		if n > 0 && !single {
			w.fl["cross-read"] = true
		}
		if op.K == "rbin" && n > 0 {
			w.private(p, "", "private-bin")
		}
		b.readable = b.readable[n:]
	case "rbyte":
		c, err := lb.ReadByte()
		if len(b.readable) == 0 {
			if err == nil {
				w.fail("C01", "read-beyond", "ReadByte on empty buffer returned nil error")
			}
			return
		}
		if err != nil || c != b.readable[0] {
			w.fail("C01", "read-value", "ReadByte = %#x, %v; model %#x", c, err, b.readable[0])
			return
		}
		b.readable = b.readable[1:]
	case "until":
		delim := byte(op.X)
		idx := bytes.IndexByte(b.readable, delim)
		p, err := lb.Until(delim)
		if idx < 0 {
			if err == nil {
				w.fail("C01", "until-missing", "Until(%#x) found a delimiter the model does not contain (%d bytes)", delim, len(p))
			}
			return
		}
		if err != nil || !bytes.Equal(p, b.readable[:idx+1]) {
			w.fail("C01", "read-value", "Until(%#x) = %d bytes, %v; model %d bytes", delim, len(p), err, idx+1)
			return
		}
		b.readable = b.readable[idx+1:]
		b.track(w, p, "until", false)
	case "readcopy":
		dst := make([]byte, n)
		got := lb.readCopy(dst)
		want := n
		if want > len(b.readable) {
			want = len(b.readable)
		}
		if want < 0 {
			want = 0
		}
		if got != want || !bytes.Equal(dst[:got], b.readable[:want]) {
			w.fail("C01", "read-value", "readCopy(%d) = %d bytes, model %d (equal=%v)", n, got, want, got == want)
			return
		}
		if got > 0 {
			w.private(dst, "", "private-read")
			w.fl["readcopy"] = true
			// Bytes() is only used by zcWriter.Flush (followed by Skip+Release), never together
			// with the copy-read of connection.Read: its result is not followed across a readCopy.
			out := b.results[:0]
			for _, r := range b.results {
				if r.kind != "bytes" {
					out = append(out, r)
				}
			}
			b.results = out
		}
		b.readable = b.readable[want:]
	case "bytes":
		p := lb.Bytes()
		if !bytes.Equal(p, b.readable) {
			w.fail("C01", "read-value", "Bytes() = %d bytes, model %d", len(p), len(b.readable))
			return
		}
		b.track(w, p, "bytes", false)
	case "getbytes":
		var arg [][]byte
		if n > 0 {
			arg = make([][]byte, n)
		}
		vs := lb.GetBytes(arg)
		var cat []byte
		for _, v := range vs {
			cat = append(cat, v...)
		}
		// GetBytes is the helper behind connection.flush (always called with the 32-slot barrier):
		// whatever it returns must be a prefix of the readable bytes, in order.
		if len(cat) > len(b.readable) || !bytes.Equal(cat, b.readable[:len(cat)]) {
			w.fail("C01", "read-value", "GetBytes(%d vecs) is not a prefix of the model (%d bytes vs %d)", n, len(cat), len(b.readable))
			return
		}
		if n >= 32 && len(vs) < n && len(cat) != len(b.readable) {
			w.fail("C01", "read-value", "GetBytes(%d vecs) returned %d vectors with %d of %d readable bytes", n, len(vs), len(cat), len(b.readable))
			return
		}
		for _, v := range vs {
			b.track(w, v, "vec", false)
		}
	case "slice":
		single := b.readNodeLeft() >= n
		r, err := lb.Slice(n)
		if n > len(b.readable) {
			if err == nil {
				w.fail("C01", "read-beyond", "Slice(%d) with %d readable returned nil error", n, len(b.readable))
			}
			return
		}
		if err != nil || r == nil {
			w.fail("C01", "read-err", "Slice(%d) with %d readable: %v", n, len(b.readable), err)
			return
		}
		child, ok := r.(*LinkBuffer)
		if !ok {
			w.fail("C01", "slice-type", "Slice returned %T", r)
			return
		}
		if n <= 0 {
			if child.Len() != 0 {
				w.fail("C01", "slice-len", "Slice(%d).Len() = %d", n, child.Len())
			}
			return
		}
		if !single {
			w.fl["cross-read"] = true
		}
		cb := &e1Buf{id: len(w.bufs), lb: child, mode: e1Child, parent: b, depth: b.depth + 1}
		cb.readable = append([]byte(nil), b.readable[:n]...)
		w.bufs = append(w.bufs, cb)
		b.readable = b.readable[n:]
		b.dropResults() // documented: Slice releases the parent
		w.fl["slice"] = true
		if cb.depth > 1 {
			w.fl["nested-slice"] = true
		}
	case "release":
		if err := lb.Release(); err != nil {
			w.fail("C01", "release-err", "Release: %v", err)
		}
		b.dropResults()
		w.fl["release"] = true
		for _, c := range w.bufs {
			if !c.dead && c.parent == b {
				w.fl["slice-outlives-release"] = true
			}
		}
	case "close":
		if err := lb.Close(); err != nil {
			w.fail("C01", "close-err", "Close: %v", err)
		}
		b.dead, b.lb = true, nil
		b.dropResults()
		w.fl["close"] = true
		for _, c := range w.bufs {
			if !c.dead && c.parent == b {
				w.fl["close-with-live-slice"] = true
			}
		}
	case "len":
		// checked by the invariant
	default:
		panic("e1: unknown op " + op.K)
	}
}

func (b *e1Buf) dropPeekMulti() {
	if !b.peekMulti {
		return
	}
	out := b.results[:0]
	for _, r := range b.results {
		if !(r.kind == "peek" && r.multi) {
			out = append(out, r)
		}
	}
	b.results = out
	b.peekMulti = false
}

// checkRead applies the common contract of Next/Peek/ReadBinary/ReadString.
func (w *e1World) checkRead(op e1Op, b *e1Buf, p []byte, err error, n int) bool {
	if n <= 0 {
		if len(p) != 0 || err != nil {
			w.fail("C01", "read-nonpositive", "%s(%d) = %d bytes, %v", op.K, n, len(p), err)
		}
		return false
	}
	if n > len(b.readable) {
		if err == nil {
			w.fail("C01", "read-beyond", "%s(%d) with %d readable returned nil error", op.K, n, len(b.readable))
		}
		return false
	}
	if err != nil {
		w.fail("C01", "read-err", "%s(%d) with %d readable: %v", op.K, n, len(b.readable), err)
		return false
	}
	if !bytes.Equal(p, b.readable[:n]) {
		w.fail("C01", "read-value", "%s(%d) returned wrong bytes (len %d, first diff at %d)", op.K, n, len(p), firstDiff(p, b.readable[:n]))
		return false
	}
	return true
}

func firstDiff(a, b []byte) int {
	for i := 0; i < len(a) && i < len(b); i++ {
		if a[i] != b[i] {
			return i
		}
	}
	if len(a) != len(b) {
		if len(a) < len(b) {
			return len(a)
		}
		return len(b)
	}
	return -1
}

func (w *e1World) opNew(op e1Op) {
	var lb *LinkBuffer
	if op.N < 0 {
		lb = NewLinkBuffer()
	} else {
		lb = NewLinkBuffer(op.N)
	}
	w.bufs = append(w.bufs, &e1Buf{id: len(w.bufs), lb: lb, mode: op.M})
}

// invariant runs after every step.
func (w *e1World) invariant() {
	if w.viol != nil || w.other {
		return
	}
	defer func() {
		if r := recover(); r != nil {
			w.fail("ANY", "panic:invariant", "panic while inspecting buffers: %v", r)
		}
	}()
	nodes := map[*linkBufferNode]int{}
	for _, b := range w.bufs {
		if b.dead {
			continue
		}
		// ---- C01: counters
		ln, ml := b.lb.Len(), b.lb.MallocLen()
		if b.appendWin {
			if ln+ml != len(b.readable)+len(b.pending) {
				w.fail("C01", "len-sum", "b%d after Append: Len+MallocLen = %d+%d, model %d", b.id, ln, ml, len(b.readable)+len(b.pending))
			}
		} else if ln != len(b.readable) || ml != len(b.pending) {
			w.fail("C01", "len", "b%d: Len=%d MallocLen=%d, model readable=%d pending=%d", b.id, ln, ml, len(b.readable), len(b.pending))
		}
		// ---- C02: every live zero-copy result is intact and its block not freed
		for _, r := range b.results {
			if !mcache.Live(r.p) {
				w.fail("C02", "freed:"+r.kind+multiTag(r.multi), "b%d: %s result of %d bytes (step %d) lies in a block returned to the pool before Release; freed by %s", b.id, r.kind, len(r.p), r.born, mcache.FreedBy(r.p))
			} else if !bytes.Equal(r.p, r.snap) {
				w.fail("C02", "changed:"+r.kind+multiTag(r.multi), "b%d: %s result of %d bytes (step %d) changed before Release (first diff at %d)", b.id, r.kind, len(r.p), r.born, firstDiff(r.p, r.snap))
			}
		}
		// ---- C03: chain nodes never reference a freed block, no node in two chains
		for nd, hops := b.lb.head, 0; nd != nil; nd, hops = nd.next, hops+1 {
			if hops > 100000 {
				w.fail("C03", "chain-cycle", "b%d: node chain does not terminate", b.id)
				break
			}
			if prev, dup := nodes[nd]; dup {
				w.fail("C03", "node-aliased", "node struct %p is linked into b%d and b%d (returned to the node pool twice)", nd, prev, b.id)
			}
			nodes[nd] = b.id
			if cap(nd.buf) > 0 && !mcache.Live(nd.buf) {
				w.fail("C03", "chain-freed-block", "b%d: a linked node references a block already returned to the pool; freed by %s", b.id, mcache.FreedBy(nd.buf))
			}
		}
		for _, c := range b.lb.caches {
			if cap(c) > 0 && !mcache.Live(c) {
				w.fail("C03", "cache-freed-block", "b%d: caches holds a block already returned to the pool", b.id)
			}
		}
		if cap(b.lb.cachePeek) > 0 && !mcache.Live(b.lb.cachePeek) {
			w.fail("C03", "cache-freed-block", "b%d: cachePeek holds a block already returned to the pool", b.id)
		}
	}
	// ---- C03: ledger
	for _, ev := range mcache.Events() {
		switch {
		case ev.Kind == "double":
			w.fail("C03", "double-free", "a pool block (cap %d) was returned to the pool twice; %s", ev.Cap, ev.Stack)
		case ev.Kind == "interior" && ev.Poolable:
			w.fail("C03", "interior-free", "an interior pointer of a pool block (cap %d) was returned to the pool; %s", ev.Cap, ev.Stack)
		case ev.Kind == "foreign" && ev.Poolable:
			w.fail("C03", "foreign-free", "memory the pool never issued (cap %d) was returned to it; %s", ev.Cap, ev.Stack)
		default:
			w.fl["ignored-free"] = true // the real pool ignores non-power-of-two capacities
		}
	}
	// ---- C03: caller-owned and private memory is never written or freed
	for _, m := range w.mems {
		if m.s != "" {
			if m.s != string(m.snap) {
				w.fail("C03", "caller-written:"+m.kind, "%s memory (%d bytes) was modified", m.kind, len(m.snap))
			}
			continue
		}
		if !bytes.Equal(m.p, m.snap) {
			w.fail("C03", "caller-written:"+m.kind, "%s memory (%d bytes) was modified (first diff at %d)", m.kind, len(m.snap), firstDiff(m.p, m.snap))
		}
	}
}

func multiTag(m bool) string {
	if m {
		return ":multi"
	}
	return ""
}

// finish drains every live buffer and tears everything down; the ledger is judged once more.
func (w *e1World) finish() {
	if w.viol != nil || w.other {
		return
	}
	func() {
		defer func() {
			if r := recover(); r != nil {
				w.fail("ANY", "panic:drain", "panic during the final drain: %v", r)
			}
		}()
		for _, b := range w.bufs {
			if b.dead {
				continue
			}
			if b.mode == e1Writer {
				b.lb.Flush()
				b.readable = append(b.readable, b.pending...)
				b.pending, b.appendWin = nil, false
			}
			n := len(b.readable)
			if b.lb.Len() != n {
				w.fail("C01", "drain-len", "b%d: final Len=%d, model %d", b.id, b.lb.Len(), n)
				return
			}
			if n > 0 {
				p, err := b.lb.ReadBinary(n)
				if err != nil || !bytes.Equal(p, b.readable) {
					w.fail("C01", "drain-value", "b%d: final drain of %d bytes differs from the model (first diff at %d, err %v)", b.id, n, firstDiff(p, b.readable), err)
					return
				}
				b.readable = nil
			}
			if _, err := b.lb.Next(1); err == nil {
				w.fail("C01", "drain-extra", "b%d: a byte is readable after the whole model was drained", b.id)
				return
			}
		}
	}()
	w.invariant()
	if w.viol != nil || w.other {
		return
	}
	func() {
		defer func() {
			if r := recover(); r != nil {
				w.fail("ANY", "panic:teardown", "panic during teardown: %v", r)
			}
		}()
		// parents first, then children: the hard order for the reference counts
		for _, b := range w.bufs {
			if !b.dead {
				b.lb.Release()
				b.dropResults()
			}
		}
		w.invariant()
		for _, b := range w.bufs {
			if !b.dead {
				if b.mode == e1Child {
					b.lb.Release() // a Slice reader is only a Reader: Release is all a user can call
				} else {
					b.lb.Close()
				}
				b.dead, b.lb = true, nil
			}
		}
	}()
	w.invariant()
	_, freed := mcache.Stats()
	if freed > 0 {
		w.fl["pool-freed"] = true
	}
}

// canon is the canonical form of a case used for distinctness: op kinds with size classes.
func (w *e1World) canon(ops []e1Op) string {
	var sb strings.Builder
	fmt.Fprintf(&sb, "%d|", w.cap)
	for _, o := range ops {
		sb.WriteString(o.K)
		sb.WriteString(vSizeClass(o.N, w.cap))
		if o.K == "direct" || o.K == "book" {
			sb.WriteString(vSizeClass(o.M, w.cap))
		}
		sb.WriteByte(byte('0' + o.B%10))
		sb.WriteByte(',')
	}
	return sb.String()
}

// nontrivial applies the per-property rule stated in DESIGN §3.1/§5.
func (w *e1World) nontrivial() bool {
	f := w.fl
	switch w.prop {
	case "C02":
		// a zero-copy result observed across a later operation that allocates or frees pool memory
		return f["res-held-across-pool-op"]
	case "C03":
		return f["pool-freed"] && (f["caller-node"] || f["direct"] || f["slice"])
	default:
		return f["cross-read"] && (f["ack-discard"] || f["direct"] || f["append-nonempty"] || f["slice-outlives-release"] || f["bookack0"])
	}
}

// stepOp applies one operation, maintains the classification flags and runs the invariant.
func (w *e1World) stepOp(op e1Op) {
	m0, f0 := mcache.Counters()
	w.apply(op)
	m1, f1 := mcache.Counters()
	if m1 != m0 || f1 != f0 {
		for _, b := range w.bufs {
			for _, r := range b.results {
				if r.born < w.step {
					w.fl["res-held-across-pool-op"] = true
				}
			}
		}
	}
	w.invariant()
}

func (w *e1World) stopped() bool { return w.viol != nil || w.other }

func e1RunCase(c e1Case, excl map[string]bool) (*e1World, *e1Viol) {
	saved := LinkBufferCap
	defer func() { LinkBufferCap = saved; mcache.SetRecording(false) }()
	w := newE1World(c.Prop, c.Cap, excl)
	for _, op := range c.Ops {
		w.stepOp(op)
		if w.stopped() {
			break
		}
	}
	w.finish()
	return w, w.viol
}
