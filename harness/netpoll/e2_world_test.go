//go:build go1.18

//go:debug asynctimerchan=1

// E2 simworld: the real poller loop, handler tasks and user goroutines run as actors of a
// cooperative scheduler; the schedule is a rapid-generated (and therefore shrinkable) value.
package netpoll

import (
	"context"
	"encoding/json"
	"fmt"
	"os"
	"path/filepath"
	"runtime"
	"sort"
	"strings"
	"sync"
	"sync/atomic"
	"syscall"
	"time"
	"unsafe"

	"github.com/cloudwego/netpoll/internal/runner"
	vs "github.com/cloudwego/netpoll/internal/verifsched"
	"pgregory.net/rapid"
)

type e2Event struct {
	Step int    `json:"s"`
	Name string `json:"n"`
}

type e2World struct {
	t        *rapid.T
	s        *vs.Sched
	polls    []*defaultPoll
	fds      map[int]bool // descriptors the harness must close at teardown
	mu       sync.Mutex
	log      []e2Event
	strategy int
	param    int
	prio     map[int]int
	chpts    map[int]bool
	replay   []vs.Step
	diverged bool
	closes   map[int]int // audited close(2) calls by descriptor
	badClose []string
	taskSeq  int
	panics   []string // panics recovered from handler tasks (as gopool does)
	clockFor []*e2Clock
	stepHook func(step int, a *vs.Actor)
	savedRun func(ctx context.Context, f func())
	closed   bool
	lastRun  map[int]int
	forced   int
	// noPreempt keeps the current actor running (exclusion by construction of a known finding's window)
	noPreempt func(cur *vs.Actor) bool
	held      int
	// rank, when set, replaces the drawn schedule by a fixed priority policy (directed reproducers of known findings)
	rank func(a *vs.Actor) int
	// hold, when set, keeps an actor from being chosen while any other actor is enabled
	hold     func(a *vs.Actor) bool
	heldBack int
	pollExit []string
	// atClose runs at teardown (listeners, temp files)
	atClose []func()
}

const e2FairAge = 400

// vInfra reports a harness problem: never a violation. The process exits with status 2.
func vInfra(format string, a ...interface{}) {
	msg := "VERIF-HARNESS " + fmt.Sprintf(format, a...)
	os.WriteFile(filepath.Join(vOutDir, "infra.txt"), []byte(msg), 0o644)
	fmt.Println(msg)
	os.Exit(2)
}

var e2PointTable = func() map[int]string {
	m := map[int]string{}
	if p := os.Getenv("VERIF_POINTS"); p != "" {
		var pts []struct {
			ID   int    `json:"id"`
			File string `json:"file"`
			Line int    `json:"line"`
			Kind string `json:"kind"`
			Src  string `json:"src"`
		}
		if b, err := os.ReadFile(p); err == nil && json.Unmarshal(b, &pts) == nil {
			for _, x := range pts {
				m[x.ID] = fmt.Sprintf("%s:%d %s", x.File, x.Line, x.Src)
			}
		}
	}
	return m
}()

// e2PointID finds the id of the schedule point whose statement text contains all the fragments (file first).
func e2PointID(file string, frags ...string) int {
	for id, s := range e2PointTable {
		if !strings.HasPrefix(s, file+":") {
			continue
		}
		ok := true
		for _, f := range frags {
			if !strings.Contains(s, f) {
				ok = false
			}
		}
		if ok {
			return id
		}
	}
	return -1000
}

const (
	e2Uniform = 0
	e2FewPre  = 1
	e2PCT     = 2
)

// newE2World opens npolls pollers whose Wait loops run as daemon actors.
// replay != nil follows recorded decisions instead of drawing them.
func newE2World(t *rapid.T, npolls int, replay []vs.Step) *e2World {
	w := &e2World{t: t, s: vs.New(), fds: map[int]bool{}, prio: map[int]int{}, chpts: map[int]bool{}, closes: map[int]int{}, replay: replay, lastRun: map[int]int{}}
	if t != nil {
		w.strategy = rapid.SampledFrom([]int{e2Uniform, e2Uniform, e2FewPre, e2FewPre, e2PCT}).Draw(t, "strategy")
		switch w.strategy {
		case e2FewPre:
			w.param = rapid.SampledFrom([]int{1, 3, 7, 15, 31}).Draw(t, "stay")
		case e2PCT:
			for i, n := 0, rapid.IntRange(0, 3).Draw(t, "nchange"); i < n; i++ {
				w.chpts[rapid.IntRange(0, 300).Draw(t, "changeAt")] = true
			}
		}
	}
	for i := 0; i < npolls; i++ {
		p, err := openDefaultPoll()
		if err != nil {
			vInfra("openDefaultPoll: %v", err)
		}
		w.polls = append(w.polls, p)
		w.fds[p.fd] = true
		w.fds[p.wop.FD] = true
	}
	m := pollmanager
	m.polls = make([]Poll, 0, npolls)
	for _, p := range w.polls {
		m.polls = append(m.polls, p)
	}
	if m.balance == nil {
		m.balance = newLoadbalance(RoundRobin, m.polls)
	}
	m.balance.Rebalance(m.polls)
	if rr, ok := m.balance.(*roundRobinLB); ok {
		rr.accepted = 0 // deterministic poller assignment per case
	}
	atomic.StoreInt32(&m.numLoops, int32(npolls))
	atomic.StoreInt32(&m.status, managerInitialized)
	w.s.Choose = w.choose
	w.s.OnStep = func(step int, a *vs.Actor) {
		if w.stepHook != nil {
			w.stepHook(step, a)
		}
	}
	w.savedRun = runner.RunTask
	runner.RunTask = func(ctx context.Context, f func()) {
		w.taskSeq++
		name := fmt.Sprintf("task%d", w.taskSeq)
		w.s.Go(name, false, func() {
			defer func() {
				if p := recover(); p != nil {
					w.mu.Lock()
					w.panics = append(w.panics, fmt.Sprint(p))
					w.mu.Unlock()
					w.ev("task-panic")
				}
			}()
			f()
		})
	}
	vs.SetCloseAudit(func(point, fd int) {
		w.mu.Lock()
		w.closes[fd]++
		if !fdOpen(fd) {
			w.badClose = append(w.badClose, fmt.Sprintf("close(%d) at point %d: descriptor is not open", fd, point))
		}
		w.mu.Unlock()
	})
	vs.Install(w.s)
	for i, p := range w.polls {
		p := p
		w.s.Go(fmt.Sprintf("poller%d", i), true, func() {
			defer func() {
				// a panic in the poller goroutine kills a production process: recorded like the escaped panics of netpoll's own goroutines
				if r := recover(); r != nil {
					buf := make([]byte, 4096)
					w.mu.Lock()
					w.s.Crashes = append(w.s.Crashes, fmt.Sprintf("poller loop panicked: %v\n%s", r, buf[:runtime.Stack(buf, false)]))
					w.mu.Unlock()
				}
			}()
			err := p.Wait()
			w.mu.Lock()
			w.pollExit = append(w.pollExit, fmt.Sprintf("poller loop returned: %v (step %d)", err, w.s.StepCount()))
			w.mu.Unlock()
		})
	}
	return w
}

func fdOpen(fd int) bool {
	_, _, e := syscall.Syscall(syscall.SYS_FCNTL, uintptr(fd), syscall.F_GETFD, 0)
	return e == 0
}

func (w *e2World) choose(en []*vs.Actor, cur *vs.Actor) int {
	if w.replay != nil {
		i := w.s.StepCount()
		if i < len(w.replay) {
			for k, a := range en {
				if a.ID == w.replay[i].Actor {
					if a.Point() != w.replay[i].Point {
						w.diverged = true
					}
					return k
				}
			}
			w.diverged = true
		}
		return 0
	}
	if w.rank != nil {
		best, bi := 1<<30, 0
		for k, a := range en {
			if r := w.rank(a); r < best {
				best, bi = r, k
			}
		}
		return bi
	}
	t := w.t
	if t == nil {
		return 0 // no generator: natural order (the running actor continues, else the oldest enabled actor)
	}
	// fairness: an enabled actor that has not run for a long time goes first, whatever the strategy says.
	// Spin-waiting code (a poller on a level-triggered event, a stop() loop) relies on the other party
	// getting CPU time eventually; without this a priority-based schedule starves it and looks like a livelock.
	step := w.s.StepCount()
	if cur != nil {
		w.lastRun[cur.ID] = step
	}
	oldest, oi := 0, -1
	for k, a := range en {
		lr, ok := w.lastRun[a.ID]
		if !ok {
			w.lastRun[a.ID] = step
			continue
		}
		if age := step - lr; age > e2FairAge && age > oldest {
			oldest, oi = age, k
		}
	}
	if oi >= 0 {
		w.lastRun[en[oi].ID] = step
		w.forced++
		return oi
	}
	if len(en) == 1 {
		return 0
	}
	if w.hold != nil {
		// schedule bias: some actors are held back while anybody else can run (still a legal schedule)
		var keep []int
		for k, a := range en {
			if !w.hold(a) {
				keep = append(keep, k)
			}
		}
		if len(keep) > 0 && len(keep) < len(en) {
			sub := make([]*vs.Actor, len(keep))
			for i, k := range keep {
				sub[i] = en[k]
			}
			saved := w.hold
			w.hold = nil
			i := w.choose(sub, cur)
			w.hold = saved
			w.heldBack++
			return keep[i]
		}
	}
	if w.noPreempt != nil && cur != nil && en[0] == cur && w.noPreempt(cur) {
		w.held++
		return 0
	}
	switch w.strategy {
	case e2FewPre:
		if cur != nil && en[0] == cur {
			if rapid.IntRange(0, w.param).Draw(t, "sw") != 0 {
				return 0
			}
			return rapid.IntRange(1, len(en)-1).Draw(t, "pick")
		}
		return rapid.IntRange(0, len(en)-1).Draw(t, "pick")
	case e2PCT:
		if w.chpts[step] && cur != nil {
			w.prio[cur.ID] = -step - 1 // the running actor drops below everybody
		}
		best, bi := -1<<30, 0
		for k, a := range en {
			p, ok := w.prio[a.ID]
			if !ok {
				p = rapid.IntRange(1, 1000).Draw(t, "prio")
				w.prio[a.ID] = p
			}
			if p > best {
				best, bi = p, k
			}
		}
		return bi
	default:
		return rapid.IntRange(0, len(en)-1).Draw(t, "pick")
	}
}

// ev appends to the event log, stamped with the scheduler's step counter.
func (w *e2World) ev(name string) {
	st := w.s.StepCount()
	w.mu.Lock()
	w.log = append(w.log, e2Event{st, name})
	w.mu.Unlock()
}

func (w *e2World) events() []e2Event {
	w.mu.Lock()
	defer w.mu.Unlock()
	return append([]e2Event(nil), w.log...)
}

func (w *e2World) names() []string {
	var r []string
	for _, e := range w.events() {
		r = append(r, e.Name)
	}
	return r
}

func (w *e2World) count(name string) int {
	n := 0
	for _, e := range w.events() {
		if e.Name == name {
			n++
		}
	}
	return n
}

// first / last index of an event name in the log, -1 when absent.
func (w *e2World) first(name string) int {
	for i, e := range w.events() {
		if e.Name == name {
			return i
		}
	}
	return -1
}

func (w *e2World) last(name string) int {
	evs := w.events()
	for i := len(evs) - 1; i >= 0; i-- {
		if evs[i].Name == name {
			return i
		}
	}
	return -1
}

// socketpair returns a non-blocking AF_UNIX stream pair owned by the harness.
func (w *e2World) socketpair() (int, int) {
	fds, err := syscall.Socketpair(syscall.AF_UNIX, syscall.SOCK_STREAM, 0)
	if err != nil {
		vInfra("socketpair: %v", err)
	}
	w.fds[fds[0]], w.fds[fds[1]] = true, true
	// Both ends are non-blocking: netpoll's end is anyway, and on a changed tree netpoll may read a
	// descriptor number it should no longer use - on a blocking peer end that read (a raw system call
	// on the poller's thread) would wedge the whole test process instead of ending in a verdict.
	syscall.SetNonblock(fds[0], true)
	syscall.SetNonblock(fds[1], true)
	return fds[0], fds[1]
}

// run drives the schedule to quiescence. A step budget hit is returned as livelock=true.
func (w *e2World) run(maxSteps int) (parked []*vs.Actor, livelock bool) {
	res := w.s.Run(maxSteps)
	if res.Stalled != "" {
		vInfra("%s", res.Stalled)
	}
	return res.Parked, res.Budget
}

// close tears the world down: releases all actors and closes every descriptor it created.
func (w *e2World) close() {
	if w.closed {
		return
	}
	w.closed = true
	w.s.Abort()
	vs.SetCloseAudit(nil)
	vs.Uninstall()
	runner.RunTask = w.savedRun
	for fd := range w.fds {
		syscall.Close(fd)
	}
	for _, f := range w.atClose {
		f()
	}
	time.Sleep(0)
}

// peerClose closes a harness-owned descriptor (and forgets it).
func (w *e2World) peerClose(fd int) {
	if w.fds[fd] {
		delete(w.fds, fd)
		syscall.Close(fd)
	}
}

func (w *e2World) trace() []vs.Step { return append([]vs.Step(nil), w.s.Trace...) }

// describeTrace renders the last n decisions with source locations.
func (w *e2World) describeTrace(n int) string {
	tr := w.s.Trace
	// a spinning actor at the end says nothing: drop the repetition of the last two (actor, point) pairs
	for len(tr) > 4 && tr[len(tr)-1] == tr[len(tr)-3] && tr[len(tr)-2] == tr[len(tr)-4] {
		tr = tr[:len(tr)-2]
	}
	if len(tr) > n {
		tr = tr[len(tr)-n:]
	}
	acts := w.s.Actors()
	var sb strings.Builder
	for _, st := range tr {
		name := "?"
		if st.Actor < len(acts) {
			name = acts[st.Actor].Name
		}
		loc := e2PointTable[st.Point]
		if loc == "" {
			loc = fmt.Sprintf("harness:%d", st.Point)
		}
		fmt.Fprintf(&sb, "    %-10s %s\n", name, loc)
	}
	return sb.String()
}

// ---- clock: timers fire as a scheduling choice ----

type e2Clock struct {
	Fired int
}

// addClock starts a daemon actor that may fire *timer (by Reset(1ns) on the real timer) whenever
// the actor `who` is parked in a select that includes the timer's channel. maxFires bounds it.
func (w *e2World) addClock(name string, who func() *vs.Actor, timer func() *time.Timer, maxFires int) *e2Clock {
	ck := &e2Clock{}
	w.s.Go(name, true, func() {
		for ck.Fired < maxFires {
			vs.WaitFor(-30, func() bool {
				a, tm := who(), timer()
				return a != nil && tm != nil && a.InSelectOn(tm.C) && len(tm.C) == 0
			})
			tm := timer()
			tm.Reset(time.Nanosecond)
			deadline := time.Now().Add(5 * time.Second)
			for len(tm.C) == 0 {
				time.Sleep(5 * time.Microsecond)
				if time.Now().After(deadline) {
					vInfra("timer did not fire after Reset(1ns)")
				}
			}
			ck.Fired++
			w.ev(name + "-fire")
		}
	})
	return ck
}

func siocinq(fd int) int {
	var n int32
	syscall.Syscall(syscall.SYS_IOCTL, uintptr(fd), 0x541B, uintptr(unsafe.Pointer(&n)))
	return int(n)
}

func setSndBuf(fd, n int) { syscall.SetsockoptInt(fd, syscall.SOL_SOCKET, syscall.SO_SNDBUF, n) }
func setRcvBuf(fd, n int) { syscall.SetsockoptInt(fd, syscall.SOL_SOCKET, syscall.SO_RCVBUF, n) }

// opCensus counts the poller slots currently handed out (allocated and not on the free chain / free list).
func opCensus(p *defaultPoll) (inUse int, problem string) {
	c := p.opcache
	seen := map[*FDOperator]bool{}
	free := 0
	for op := c.first; op != nil; op = op.next {
		if seen[op] {
			return 0, "poller free chain contains a slot twice (cycle)"
		}
		seen[op] = true
		free++
	}
	idx := map[int32]bool{}
	for _, i := range c.freelist {
		if idx[i] {
			return 0, fmt.Sprintf("poller free list contains slot %d twice", i)
		}
		idx[i] = true
		if int(i) < len(c.cache) && seen[c.cache[i]] {
			return 0, fmt.Sprintf("slot %d is on the free chain and on the free list", i)
		}
	}
	return len(c.cache) - free - len(c.freelist), ""
}

// e2Replay is the replay record of an E2 case.
type e2Replay struct {
	Scenario  interface{} `json:"scenario"`
	Strategy  int         `json:"strategy"`
	Decisions []vs.Step   `json:"decisions"`
	Events    []string    `json:"events,omitempty"`
	TraceTail string      `json:"trace_tail,omitempty"`
}

func sortedKeys(m map[string]bool) []string {
	var r []string
	for k, v := range m {
		if v {
			r = append(r, k)
		}
	}
	sort.Strings(r)
	return r
}

// e2TraceHash folds every decision of every case into one number per process (determinism evidence).
func e2TraceHash(st *vStats, w *e2World) {
	st.mu.Lock()
	defer st.mu.Unlock()
	h, _ := st.Extra["trace_hash"].(uint64)
	for _, d := range w.s.Trace {
		h = h*1099511628211 + uint64(d.Actor*1000003+d.Point+7)
	}
	st.Extra["trace_hash"] = h
}

// excludeF13 keeps the hang-up goroutine running from its closeBy(poller) to the end of onDisconnect:
// known finding F13 (C09) is the handler task running the close callbacks inside that window.
func (w *e2World) excludeF13() {
	pClose := e2PointID("connection_lock.go", "keychain[closing], 0, w")
	pAfter := e2PointID("connection_reactor.go", "onConnect := c.onConnectCallback.Load()")
	in := map[int]bool{}
	prev := w.stepHook
	w.stepHook = func(step int, a *vs.Actor) {
		if prev != nil {
			prev(step, a)
		}
		if strings.HasPrefix(a.Name, "go@") {
			if a.Point() == pClose {
				in[a.ID] = true
			} else if a.Point() == pAfter {
				in[a.ID] = false
			}
		}
	}
	w.noPreempt = func(cur *vs.Actor) bool { return in[cur.ID] && !cur.Done() }
}

// directF13 installs the fixed schedule that reproduces known finding F13: everything runs in natural
// order, but once the hang-up goroutine has won closeBy(poller) the handler task goes first.
func (w *e2World) directF13() {
	pClose := e2PointID("connection_lock.go", "keychain[closing], 0, w")
	passed := map[int]bool{}
	w.stepHook = func(step int, a *vs.Actor) {
		if strings.HasPrefix(a.Name, "go@") && a.Point() == pClose {
			passed[a.ID] = true
		}
	}
	w.rank = func(a *vs.Actor) int {
		switch {
		case strings.HasPrefix(a.Name, "go@"):
			if passed[a.ID] {
				return 4
			}
			return 2
		case strings.HasPrefix(a.Name, "task"):
			return 3
		case strings.HasPrefix(a.Name, "poller"):
			return 1
		}
		return 0
	}
}

// e2Confirmed re-executes a failing case from its recorded decisions in a fresh world. An E2 run is a
// function of (scenario, decision list), so a genuine violation reproduces; a failure that does not is
// interference from outside the case (it has been seen, very rarely, on a heavily loaded machine) and is
// counted, not reported.
func e2Confirmed(st *vStats, w *e2World, replay func(decisions []vs.Step) string) bool {
	dec := w.trace()
	w.close()
	if sig2 := replay(dec); sig2 != "" {
		return true
	}
	st.class("unreproduced-failure-discarded")
	return false
}

// e2PointIDFirst is e2PointID restricted to the match with the lowest source line.
func e2PointIDFirst(file string, frag string) int {
	best, bestLine := -1000, 1<<30
	for id, s := range e2PointTable {
		if !strings.HasPrefix(s, file+":") || !strings.Contains(s, frag) {
			continue
		}
		var line int
		fmt.Sscanf(s[len(file)+1:], "%d", &line)
		if line < bestLine {
			best, bestLine = id, line
		}
	}
	return best
}
