//go:build go1.18

// Common support for the /verif checks: statistics, violation records, replay files.
// This file is compiled into package netpoll through `go test -overlay`; it is not part of /repo.
package netpoll

import (
	"encoding/json"
	"fmt"
	"hash/fnv"
	"os"
	"path/filepath"
	"sort"
	"strconv"
	"sync"

	vsched "github.com/cloudwego/netpoll/internal/verifsched"
)

var (
	vOutDir = func() string {
		if d := os.Getenv("VERIF_OUT"); d != "" {
			return d
		}
		return "."
	}()
	vTier   = os.Getenv("VERIF_TIER")
	vReplay = os.Getenv("VERIF_REPLAY") // path of a replay file (replay mode)
)

func vEnvInt(name string, def int) int {
	if s := os.Getenv(name); s != "" {
		if n, err := strconv.Atoi(s); err == nil {
			return n
		}
	}
	return def
}

// keyed is the position-keyed pseudo-random byte used for all generated payloads:
// loss, duplication and reordering all change the observed sequence.
func keyed(off int) byte {
	x := uint32(off)*2654435761 + 0x9E3779B9
	x ^= x >> 15
	x *= 2246822519
	return byte(x >> 11)
}

func keyedBytes(start, n int) []byte {
	p := make([]byte, n)
	for i := range p {
		p[i] = keyed(start + i)
	}
	return p
}

type vStats struct {
	mu          sync.Mutex
	Property    string                 `json:"property"`
	Evaluations int64                  `json:"evaluations"`
	Classes     map[string]int64       `json:"classes"`
	Excluded    map[string]int64       `json:"excluded"`
	Nontrivial  []uint64               `json:"nontrivial_hashes"`
	NontrivialN int64                  `json:"nontrivial_total"`
	Samples     []interface{}          `json:"samples"`
	Extra       map[string]interface{} `json:"extra,omitempty"`
	seen        map[uint64]struct{}
	nsamp       int
}

func newStats(prop string) *vStats {
	return &vStats{Property: prop, Classes: map[string]int64{}, Excluded: map[string]int64{}, seen: map[uint64]struct{}{}, Extra: map[string]interface{}{}}
}

func (s *vStats) eval() {
	s.mu.Lock()
	s.Evaluations++
	s.mu.Unlock()
}

func (s *vStats) class(name string) {
	s.mu.Lock()
	s.Classes[name]++
	s.mu.Unlock()
}

func (s *vStats) classN(name string, n int64) {
	s.mu.Lock()
	s.Classes[name] += n
	s.mu.Unlock()
}

func (s *vStats) excluded(name string) {
	s.mu.Lock()
	s.Excluded[name]++
	s.mu.Unlock()
}

func vHash(canon string) uint64 {
	h := fnv.New64a()
	h.Write([]byte(canon))
	return h.Sum64()
}

// nontrivial records one non-trivial case by its canonical form; returns true when it is new.
func (s *vStats) nontrivial(canon string) bool {
	h := vHash(canon)
	s.mu.Lock()
	defer s.mu.Unlock()
	s.NontrivialN++
	if _, ok := s.seen[h]; ok {
		return false
	}
	if len(s.seen) < 400000 {
		s.seen[h] = struct{}{}
	}
	return true
}

// sample keeps a handful of concrete cases (first few and then a sparse selection of later ones).
func (s *vStats) sample(v interface{}) {
	s.mu.Lock()
	defer s.mu.Unlock()
	s.nsamp++
	if len(s.Samples) < 3 {
		s.Samples = append(s.Samples, v)
		return
	}
	if len(s.Samples) < 6 && s.nsamp%97 == 0 {
		s.Samples = append(s.Samples, v)
	}
}

func (s *vStats) write() {
	s.mu.Lock()
	defer s.mu.Unlock()
	s.Nontrivial = s.Nontrivial[:0]
	for h := range s.seen {
		s.Nontrivial = append(s.Nontrivial, h)
	}
	sort.Slice(s.Nontrivial, func(i, j int) bool { return s.Nontrivial[i] < s.Nontrivial[j] })
	b, _ := json.Marshal(s)
	os.WriteFile(filepath.Join(vOutDir, "stats-"+s.Property+".json"), b, 0o644)
}

// vViolation is one reported failure. Slot identifies the reporting site so that the
// executions rapid performs while shrinking overwrite each other and only the last
// (minimal) one is kept.
type vViolation struct {
	Property  string      `json:"property"`
	Slot      string      `json:"slot"`
	Signature string      `json:"signature"`
	Message   string      `json:"message"`
	Replay    interface{} `json:"replay"`
}

var (
	vViolMu sync.Mutex
	vViols  = map[string]vViolation{}
)

func vReport(v vViolation) {
	vViolMu.Lock()
	defer vViolMu.Unlock()
	vViols[v.Slot] = v
	var list []vViolation
	for _, x := range vViols {
		list = append(list, x)
	}
	sort.Slice(list, func(i, j int) bool { return list[i].Slot < list[j].Slot })
	b, _ := json.MarshalIndent(list, "", " ")
	os.WriteFile(filepath.Join(vOutDir, "violations.json"), b, 0o644)
}

// vKnown records that the canonical reproducer of a listed known finding still fails.
func vKnown(prop, key, what string) {
	f, err := os.OpenFile(filepath.Join(vOutDir, "known.jsonl"), os.O_APPEND|os.O_CREATE|os.O_WRONLY, 0o644)
	if err != nil {
		return
	}
	b, _ := json.Marshal(map[string]string{"property": prop, "key": key, "what": what})
	f.Write(append(b, '\n'))
	f.Close()
}

func vLoadReplay(into interface{}) error {
	b, err := os.ReadFile(vReplay)
	if err != nil {
		return err
	}
	// a replay file is either the bare case or a violation record with a "replay" member
	var rec struct {
		Replay json.RawMessage `json:"replay"`
	}
	if json.Unmarshal(b, &rec) == nil && len(rec.Replay) > 0 {
		return json.Unmarshal(rec.Replay, into)
	}
	return json.Unmarshal(b, into)
}

func vSizeClass(n, capv int) string {
	switch {
	case n <= 0:
		return "0"
	case n == 1:
		return "1"
	case n < capv-1:
		return "s"
	case n <= capv+1:
		return "c"
	case n < 4095:
		return "m"
	case n <= 4097:
		return "4k"
	case n < 8191:
		return "M"
	case n <= 8193:
		return "8k"
	case n < 1<<20:
		return "L"
	default:
		return "H"
	}
}

func vSprintf(format string, a ...interface{}) string { return fmt.Sprintf(format, a...) }

// vsSetCloseAudit forwards to the scheduler runtime's close(2) audit (fires only in builds whose
// sources were instrumented by tools/vinstr).
func vsSetCloseAudit(f func(point, fd int)) { vsched.SetCloseAudit(f) }

func vsPollReadable(fd int) bool { return vsched.PollReadable(fd) }
