//go:build go1.18

// E2 scenarios "read" (C07: a blocked reader wakes on data, close or timeout - and only then)
// and "flush" (C08: Flush completes exactly when the kernel has taken the data; also the
// hand-off half of C04).
package netpoll

import (
	"errors"
	"fmt"
	"syscall"
	"testing"
	"time"

	vs "github.com/cloudwego/netpoll/internal/verifsched"
	"pgregory.net/rapid"
)

// ------------------------------------------------------------------ C07

type readCall struct {
	Op      string `json:"op"` // next peek skip rbin slice read rbyte
	N       int    `json:"n"`
	Timeout string `json:"timeout"` // none, timeout, deadline, past
}

type readScn struct {
	FDConn    bool       `json:"fdconn,omitempty"`
	Calls     []readCall `json:"calls"`
	Peer      []peerAct  `json:"peer"`
	Fires     int        `json:"fires"`
	UserClose bool       `json:"user_close,omitempty"`
	// BufSize > 0: Config.BufferSize - the first input node is this small, reads cross node boundaries early
	BufSize int `json:"bufsize,omitempty"`
}

func genReadScn(t *rapid.T, excl map[string]bool) readScn {
	s := readScn{BufSize: rapid.SampledFrom([]int{0, 0, 0, 64, 512}).Draw(t, "bufsize")}
	s.FDConn = rapid.IntRange(0, 3).Draw(t, "fdconn") == 0
	nc := rapid.IntRange(1, 4).Draw(t, "ncalls")
	total := 0
	for i := 0; i < nc; i++ {
		c := readCall{}
		c.Op = rapid.SampledFrom([]string{"next", "next", "peek", "skip", "rbin", "slice", "read", "rbyte", "until"}).Draw(t, "op")
		c.N = rapid.IntRange(1, 12).Draw(t, "n")
		if c.Op == "rbyte" {
			c.N = 1
		}
		c.Timeout = rapid.SampledFrom([]string{"none", "none", "timeout", "timeout", "deadline", "past"}).Draw(t, "timeout")
		if excl["F6"] && s.FDConn && c.Timeout != "none" {
			c.Timeout = "none"
		}
		if c.Op == "until" {
			// Until(delim) with delim = the stream's byte N-1 positions ahead (or its first earlier occurrence).
			// Untimed only: on an error Until hands out what is buffered (documented), which the clause
			// "a timeout consumes no data" is not about.
			c.Timeout = "none"
		}
		s.Calls = append(s.Calls, c)
		if c.Op != "peek" {
			total += c.N
		}
	}
	// peer chunks arranged around the bytes the calls need
	left := total + rapid.IntRange(-3, 3).Draw(t, "slack")
	for left > 0 && len(s.Peer) < 6 {
		k := rapid.OneOf(rapid.IntRange(1, left), rapid.Just(1), rapid.Just(left)).Draw(t, "chunk")
		s.Peer = append(s.Peer, peerAct{Op: "write", N: k})
		left -= k
	}
	switch rapid.IntRange(0, 4).Draw(t, "peerEnd") {
	case 0, 1:
		s.Peer = append(s.Peer, peerAct{Op: "close"})
	case 2:
		s.Peer = append(s.Peer, peerAct{Op: "shutwr"})
	}
	s.Fires = rapid.IntRange(0, 3).Draw(t, "fires")
	s.UserClose = rapid.IntRange(0, 4).Draw(t, "userclose") == 0
	return s
}

type readResult struct {
	Err        string `json:"err"`
	Got        int    `json:"got"`
	startLen   int
	startStep  int
	endStep    int
	consumedAt int
	returned   bool
	started    bool
	need       int // bytes the call needs (N; for until: up to and including the first delimiter)
	err        error
	panicked   interface{}
	badData    string
}

type readOutcome struct {
	w        *e2World
	c        *connection
	res      []*readResult
	sent     int
	consumed int
	parked   []string
	livelock bool
	fired    []int // steps at which the clock fired
}

func runRead(t *rapid.T, s readScn, replay []vs.Step) *readOutcome {
	w := newE2World(t, 1, replay)
	o := &readOutcome{w: w}
	r, wfd := w.socketpair()
	var c *connection
	if s.BufSize > 0 {
		old := defaultLinkBufferSize
		defaultLinkBufferSize = s.BufSize
		defer func() { defaultLinkBufferSize = old }()
	}
	if s.FDConn {
		cc, err := NewFDConnection(r)
		if err != nil {
			vInfra("NewFDConnection: %v", err)
		}
		c = cc.(*connection)
	} else {
		c = new(connection)
		c.init(&netFD{fd: r, network: "unix", remoteAddr: &UnixAddr{}, localAddr: &UnixAddr{}}, nil)
	}
	o.c = c
	for range s.Calls {
		o.res = append(o.res, &readResult{})
	}
	var reader *vs.Actor
	reader = w.s.Go("reader", false, func() {
		for i, call := range s.Calls {
			res := o.res[i]
			switch call.Timeout {
			case "none":
				c.SetReadTimeout(0)
				c.SetReadDeadline(time.Time{})
			case "timeout":
				c.SetReadTimeout(time.Hour)
			case "deadline":
				c.SetReadDeadline(time.Now().Add(time.Hour))
			case "past":
				c.SetReadDeadline(time.Now().Add(-time.Hour))
			}
			vs.Yield(-40)
			res.started = true
			res.startLen = c.inputBuffer.Len()
			res.startStep = w.s.StepCount()
			res.consumedAt = o.consumed
			res.need = call.N
			var delim byte
			if call.Op == "until" {
				delim = keyed(o.consumed + call.N - 1)
				for k := 0; k < call.N; k++ {
					if keyed(o.consumed+k) == delim {
						res.need = k + 1
						break
					}
				}
			}
			w.ev(fmt.Sprintf("call%d+", i))
			func() {
				defer func() {
					if p := recover(); p != nil {
						res.panicked = p
					}
				}()
				var p []byte
				var err error
				consume := true
				switch call.Op {
				case "next":
					p, err = c.Reader().Next(call.N)
				case "peek":
					p, err = c.Reader().Peek(call.N)
					consume = false
				case "skip":
					err = c.Reader().Skip(call.N)
					if err == nil {
						p = keyedBytes(o.consumed, call.N)
					}
				case "rbin":
					p, err = c.Reader().ReadBinary(call.N)
				case "rbyte":
					var b byte
					b, err = c.Reader().ReadByte()
					if err == nil {
						p = []byte{b}
					}
				case "slice":
					var sl Reader
					sl, err = c.Reader().Slice(call.N)
					if err == nil {
						p, _ = sl.Next(call.N)
						p = append([]byte(nil), p...)
						sl.Release()
					}
				case "read":
					buf := make([]byte, call.N)
					var k int
					k, err = c.Read(buf)
					p = buf[:k]
				case "until":
					p, err = c.Reader().Until(delim)
					if err != nil && len(p) > 0 {
						// documented: on an error Until returns (and consumes) what is buffered
						if string(p) != string(keyedBytes(o.consumed, len(p))) {
							res.badData = fmt.Sprintf("until returned, with its error, %d bytes that differ from the stream at offset %d", len(p), o.consumed)
						}
						o.consumed += len(p)
					}
				}
				res.err = err
				if err == nil {
					want := res.need
					if call.Op == "read" {
						want = len(p)
						if want < 1 || want > call.N {
							res.badData = fmt.Sprintf("Read returned %d bytes for a %d byte buffer", want, call.N)
						}
					}
					exp := keyedBytes(o.consumed, want)
					if len(p) != want || string(p) != string(exp) {
						res.badData = fmt.Sprintf("%s(%d) returned %d bytes that differ from the stream at offset %d", call.Op, call.N, len(p), o.consumed)
					}
					if consume {
						o.consumed += want
					}
					res.Got = len(p)
				}
				if call.Op != "slice" {
					c.Reader().Release()
				}
			}()
			res.returned = true
			res.endStep = w.s.StepCount()
			if res.err != nil {
				res.Err = res.err.Error()
			}
			w.ev(fmt.Sprintf("call%d-", i))
		}
	})
	w.s.Go("peer", false, func() {
		for _, a := range s.Peer {
			vs.Yield(-41)
			switch a.Op {
			case "write":
				n, _ := syscall.Write(wfd, keyedBytes(o.sent, a.N))
				if n > 0 {
					o.sent += n
				}
				w.ev("peer-write")
			case "shutwr":
				syscall.Shutdown(wfd, syscall.SHUT_WR)
				w.ev("peer-close")
			case "close":
				w.peerClose(wfd)
				w.ev("peer-close")
			}
		}
	})
	if s.UserClose {
		w.s.Go("closer", false, func() {
			vs.Yield(-42)
			w.ev("user-close")
			c.Close()
		})
	}
	if s.Fires > 0 {
		ck := w.addClock("clock", func() *vs.Actor { return reader }, func() *time.Timer { return c.readTimer }, s.Fires)
		_ = ck
	}
	parked, livelock := w.run(30000)
	o.livelock = livelock
	for _, a := range parked {
		o.parked = append(o.parked, a.Name)
	}
	for _, e := range w.events() {
		if e.Name == "clock-fire" {
			o.fired = append(o.fired, e.Step)
		}
	}
	return o
}

func judgeRead(s readScn, o *readOutcome) (sig, msg string) {
	w := o.w
	logs := fmt.Sprint(w.names())
	if len(w.s.Crashes) > 0 {
		return "process-crash", "a panic escaped a goroutine netpoll starts itself: " + firstLine(w.s.Crashes[0])
	}
	if o.livelock {
		return "livelock", "the schedule did not quiesce within the step budget | events: " + logs
	}
	stepOf := func(name string) int {
		for _, e := range w.events() {
			if e.Name == name {
				return e.Step
			}
		}
		return -1
	}
	peerClose, userClose := stepOf("peer-close"), stepOf("user-close")
	for i, call := range s.Calls {
		res := o.res[i]
		desc := fmt.Sprintf("call %d %s(%d) timeout=%s", i, call.Op, call.N, call.Timeout)
		if res.panicked != nil {
			return "panic", fmt.Sprintf("%s panicked: %v | events: %s", desc, res.panicked, logs)
		}
		if !res.returned {
			// still blocked at quiescence: legal only if nothing that must wake it has happened
			if !res.started {
				break
			}
			enough := o.sent-res.consumedAt >= res.need
			if enough || peerClose >= 0 || userClose >= 0 {
				return "lost-wakeup", fmt.Sprintf("%s is blocked for ever although enough=%v peerClosed=%v userClosed=%v (sent %d, consumed before %d) | events: %s | %s", desc, enough, peerClose >= 0, userClose >= 0, o.sent, res.consumedAt, logs, w.s.Describe())
			}
			break
		}
		if res.badData != "" {
			return "wrong-data", desc + ": " + res.badData + " | events: " + logs
		}
		firedInCall := false
		for _, f := range o.fired {
			if f >= res.startStep && f <= res.endStep {
				firedInCall = true
			}
		}
		switch {
		case res.err == nil:
		case errors.Is(res.err, ErrReadTimeout):
			if call.Timeout == "none" {
				return "timeout-without-timer", desc + " returned ErrReadTimeout without any timeout configured | events: " + logs
			}
			if call.Timeout != "past" && !firedInCall {
				return "timeout-without-expiry", desc + " returned ErrReadTimeout although the timer did not expire during the call (stale tick or trigger) | events: " + logs
			}
			if res.startLen >= res.need {
				return "timeout-with-data", fmt.Sprintf("%s returned ErrReadTimeout although %d bytes were already buffered | events: %s", desc, res.startLen, logs)
			}
		case errors.Is(res.err, ErrEOF):
			if peerClose < 0 || peerClose > res.endStep {
				return "eof-without-close", desc + " returned ErrEOF before the peer closed | events: " + logs
			}
			if !errors.Is(res.err, ErrConnClosed) {
				return "eof-not-closed", desc + ": the EOF error does not match ErrConnClosed"
			}
			if o.sent-res.consumedAt >= res.need && userClose < 0 {
				return "eof-with-data", fmt.Sprintf("%s returned ErrEOF although the peer had sent %d bytes of which %d were consumed | events: %s", desc, o.sent, res.consumedAt, logs)
			}
		case errors.Is(res.err, ErrConnClosed):
			if userClose < 0 || userClose > res.endStep {
				return "closed-without-close", desc + " returned ErrConnClosed although nobody closed the connection locally | events: " + logs
			}
		default:
			return "unexpected-error", fmt.Sprintf("%s returned %v | events: %s", desc, res.err, logs)
		}
		if res.startLen >= res.need && res.err != nil && userClose < 0 {
			return "error-with-data", fmt.Sprintf("%s started with %d bytes buffered but returned %v | events: %s", desc, res.startLen, res.err, logs)
		}
	}
	for _, n := range o.parked {
		if n != "reader" {
			return "parked", fmt.Sprintf("actor %s still blocked at quiescence | events: %s", n, logs)
		}
	}
	return "", ""
}

func readNontrivial(s readScn, o *readOutcome) bool {
	evs := o.w.events()
	for i := range s.Calls {
		res := o.res[i]
		if !res.returned {
			continue
		}
		kinds := map[string]bool{}
		for _, e := range evs {
			if e.Step >= res.startStep-2 && e.Step <= res.endStep+2 {
				switch e.Name {
				case "peer-write", "clock-fire", "peer-close", "user-close":
					kinds[e.Name] = true
				}
			}
		}
		if len(kinds) >= 2 {
			return true
		}
		if i > 0 && o.res[i-1].err != nil && errors.Is(o.res[i-1].err, ErrReadTimeout) && s.Calls[i].Timeout != "none" {
			return true
		}
	}
	return false
}

func readProperty(st *vStats) func(t *rapid.T) {
	excl := vExclusions()
	return func(t *rapid.T) {
		s := genReadScn(t, excl)
		o := runRead(t, s, nil)
		defer o.w.close()
		st.eval()
		e2TraceHash(st, o.w)
		if sig, msg := judgeRead(s, o); sig != "" && e2Confirmed(st, o.w, func(d []vs.Step) string {
			o2 := runRead(nil, s, d)
			defer o2.w.close()
			s2, _ := judgeRead(s, o2)
			return s2
		}) {
			rep := e2Replay{Scenario: s, Strategy: o.w.strategy, Decisions: o.w.trace(), Events: o.w.names(), TraceTail: o.w.describeTrace(40)}
			vReport(vViolation{Property: "C07", Slot: "rapid:C07", Signature: sig, Message: msg, Replay: rep})
			t.Fatalf("C07 violated [%s]: %s\nscenario: %+v\nlast steps:\n%s", sig, msg, s, o.w.describeTrace(30))
		}
		for i := range s.Calls {
			r := o.res[i]
			switch {
			case !r.returned:
				st.class("outcome-blocked")
			case r.err == nil:
				st.class("outcome-ok")
			case errors.Is(r.err, ErrReadTimeout):
				st.class("outcome-timeout")
			case errors.Is(r.err, ErrEOF):
				st.class("outcome-eof")
			default:
				st.class("outcome-closed")
			}
		}
		if s.FDConn {
			st.class("fdconn")
		}
		st.classN("steps", int64(len(o.w.s.Trace)))
		if readNontrivial(s, o) {
			st.class("nontrivial")
			if st.nontrivial(fmt.Sprintf("%+v|%v", s, o.w.names())) {
				var rs []string
				for i, r := range o.res {
					rs = append(rs, fmt.Sprintf("%s(%d)/%s -> %q got=%d returned=%v", s.Calls[i].Op, s.Calls[i].N, s.Calls[i].Timeout, r.Err, r.Got, r.returned))
				}
				st.sample(map[string]interface{}{"scenario": s, "events": o.w.names(), "results": rs})
			}
		}
	}
}

func TestVerifC07(t *testing.T) {
	st := newStats("C07")
	defer st.write()
	if vReplay != "" {
		var rec struct {
			Scenario  readScn   `json:"scenario"`
			Decisions []vs.Step `json:"decisions"`
		}
		if err := vLoadReplay(&rec); err != nil {
			t.Fatalf("replay: %v", err)
		}
		o := runRead(nil, rec.Scenario, rec.Decisions)
		defer o.w.close()
		st.eval()
		if sig, msg := judgeRead(rec.Scenario, o); sig != "" {
			vReport(vViolation{Property: "C07", Slot: "replay:C07", Signature: sig, Message: msg, Replay: e2Replay{Scenario: rec.Scenario, Decisions: o.w.trace(), Events: o.w.names()}})
			t.Fatalf("C07 violated [%s]: %s", sig, msg)
		}
		return
	}
	rapid.Check(t, readProperty(st))
}

// ------------------------------------------------------------------ C08 (and the hand-off half of C04)

const e2PieceLen = 4097 // just above BinaryInplaceThreshold: every piece becomes its own zero-copy node

type flushCall struct {
	API     string `json:"api"` // flush (Malloc+Flush), write, binary (WriteBinary nocopy + Flush), mixed
	N       int    `json:"n"`
	Timeout string `json:"timeout"` // none, timeout, deadline
}

type flushScn struct {
	Prop      string      `json:"prop"`
	SndBuf    int         `json:"sndbuf"`
	Calls     []flushCall `json:"calls"`
	Drain     []int       `json:"drain"` // peer read sizes, one per step
	PeerClose bool        `json:"peer_close,omitempty"`
	UserClose bool        `json:"user_close,omitempty"`
	Second    bool        `json:"second_flusher,omitempty"`
	// SecondN > 0: the concurrent caller uses Write with SecondN bytes of its own (0xEE) instead of a pure
	// Flush, and only while a call of the first flusher is in progress: it must be rejected without a trace.
	SecondN     int `json:"second_write,omitempty"`
	SecondTries int `json:"second_tries,omitempty"` // calls of the concurrent caller (default 2)
	Fires   int `json:"fires"`
}

func genFlushScn(t *rapid.T, prop string) flushScn {
	s := flushScn{Prop: prop}
	s.SndBuf = rapid.SampledFrom([]int{2048, 4096, 8192, 0}).Draw(t, "sndbuf") // 0: the kernel's default (large) buffers
	nc := rapid.IntRange(1, 3).Draw(t, "ncalls")
	total := 0
	for i := 0; i < nc; i++ {
		c := flushCall{}
		c.API = rapid.SampledFrom([]string{"flush", "flush", "write", "binary", "mixed", "pieces", "append", "ack"}).Draw(t, "api")
		sb := s.SndBuf
		if sb == 0 {
			sb = 8192
		}
		c.N = rapid.OneOf(rapid.IntRange(1, 4*sb), rapid.IntRange(1, 300), rapid.IntRange(sb-64, sb+64), rapid.IntRange(3*sb, 12*sb)).Draw(t, "n")
		if c.API == "pieces" {
			// many zero-copy pieces in one flush: more output nodes than the 32-slot iovec barrier holds
			c.N = rapid.IntRange(20, 48).Draw(t, "pieces") * e2PieceLen
		}
		c.Timeout = rapid.SampledFrom([]string{"none", "none", "timeout", "deadline"}).Draw(t, "timeout")
		s.Calls = append(s.Calls, c)
		total += c.N
	}
	// the peer drains in generated read sizes; usually everything, sometimes less
	want := total
	if rapid.IntRange(0, 4).Draw(t, "partial") == 0 {
		want = rapid.IntRange(0, total).Draw(t, "drainTotal")
	}
	for want > 0 && len(s.Drain) < 40 {
		k := rapid.OneOf(rapid.IntRange(1, 9000), rapid.IntRange(1, 200), rapid.Just(want)).Draw(t, "drain")
		if k > want {
			k = want
		}
		s.Drain = append(s.Drain, k)
		want -= k
	}
	if want > 0 {
		s.Drain = append(s.Drain, want)
	}
	s.PeerClose = rapid.IntRange(0, 5).Draw(t, "peerclose") == 0
	s.UserClose = rapid.IntRange(0, 6).Draw(t, "userclose") == 0
	s.Second = rapid.IntRange(0, 4).Draw(t, "second") == 0
	s.Fires = rapid.SampledFrom([]int{0, 0, 1, 2}).Draw(t, "fires")
	if s.Second {
		// A concurrent flusher that goes on after the first flusher's ErrWriteTimeout is outside the guarantee
		// (the poller may still be draining; netpoll itself says "we cannot flush it again"): both flushers would
		// work on the output buffer at once. The combination is not generated.
		s.Fires = 0
		for i := range s.Calls {
			s.Calls[i].Timeout = "none"
			// the one writer is not interrupted by another caller's Flush while it is composing: a reservation
			// that is given back in part (MallocAck) or a buffer being linked in (Append) is not atomic
			if s.Calls[i].API == "ack" || s.Calls[i].API == "append" {
				s.Calls[i].API = "flush"
			}
		}
		if rapid.Bool().Draw(t, "secondWrite") {
			s.SecondN = rapid.IntRange(1, 300).Draw(t, "secondN")
		}
		if rapid.Bool().Draw(t, "takeover") {
			// the family in which a close meets two flushers: the first one certainly parked (one payload well
			// above the socket buffer, a peer that reads little or nothing), the other one retrying, and a close
			sb := s.SndBuf
			if sb == 0 {
				sb = 8192
				s.SndBuf = 8192
			}
			s.Calls = []flushCall{{API: rapid.SampledFrom([]string{"flush", "write", "binary"}).Draw(t, "tapi"), N: rapid.IntRange(3*sb, 12*sb).Draw(t, "tn"), Timeout: "none"}}
			s.Drain = nil
			if rapid.Bool().Draw(t, "tdrain") {
				s.Drain = []int{rapid.IntRange(1, sb).Draw(t, "tdrainN")}
			}
			s.UserClose = rapid.Bool().Draw(t, "tuser")
			s.PeerClose = !s.UserClose
			s.SecondTries = 4
		}
	}
	return s
}

type flushResult struct {
	Err        string `json:"err"`
	startStep  int
	endStep    int
	returned   bool
	err        error
	submitted  int // stream offset after this call's bytes
	lenAtRet   int
	kernel     int // bytes the kernel had taken (peer consumed + queued at the peer) when the call returned
	parkedIn   bool
	secondBusy bool // a concurrent Write was under way when the call returned
	panicked   interface{}
}

type flushOutcome struct {
	w         *e2World
	c         *connection
	res       []*flushResult
	received  []byte
	submitted int
	secondErr []error
	secondOK  int // concurrent Writes that were accepted (the first flusher was between two calls): their bytes belong to the stream
	parked    []string
	livelock  bool
	fired     []int
	waited    bool
}

func runFlush(t *rapid.T, s flushScn, replay []vs.Step) *flushOutcome {
	w := newE2World(t, 1, replay)
	o := &flushOutcome{w: w}
	r, wfd := w.socketpair()
	if s.SndBuf > 0 {
		setSndBuf(r, s.SndBuf)
		setRcvBuf(wfd, s.SndBuf)
	}
	c := new(connection)
	c.init(&netFD{fd: r, network: "unix", remoteAddr: &UnixAddr{}, localAddr: &UnixAddr{}}, nil)
	o.c = c
	for range s.Calls {
		o.res = append(o.res, &flushResult{})
	}
	syscall.SetNonblock(wfd, true)
	pWaitFlush := e2PointID("connection_impl.go", "return <-c.writeTrigger")
	pWaitFlush2 := e2PointID("connection_impl.go", "case err = <-c.writeTrigger:")
	_ = pWaitFlush2
	var flusher *vs.Actor
	w.stepHook = func(step int, a *vs.Actor) {
		if a == flusher && (a.Kind() == "recv" || a.Kind() == "select") {
			o.waited = true
		}
	}
	_ = pWaitFlush
	peerClosed := false
	inCall, secondBusy := false, false
	flusher = w.s.Go("flusher", false, func() {
		for i, call := range s.Calls {
			res := o.res[i]
			if s.SecondN > 0 {
				// one writer at a time fills the output buffer: wait until a concurrent Write has returned
				vs.WaitFor(-56, func() bool { return !secondBusy })
			}
			switch call.Timeout {
			case "none":
				c.SetWriteTimeout(0)
				c.SetWriteDeadline(time.Time{})
			case "timeout":
				c.SetWriteTimeout(time.Hour)
			case "deadline":
				c.SetWriteDeadline(time.Now().Add(time.Hour))
			}
			vs.Yield(-50)
			res.startStep = w.s.StepCount()
			w.ev(fmt.Sprintf("flush%d+", i))
			func() {
				defer func() {
					if p := recover(); p != nil {
						res.panicked = p
					}
				}()
				data := keyedBytes(o.submitted, call.N)
				o.submitted += call.N
				res.submitted = o.submitted
				inCall = true
				defer func() { inCall = false }()
				var err error
				switch call.API {
				case "write":
					_, err = c.Write(data)
				case "binary":
					_, err = c.Writer().WriteBinary(data)
					if err == nil {
						err = c.Writer().Flush()
					}
				case "pieces":
					for off := 0; off < len(data) && err == nil; off += e2PieceLen {
						_, err = c.Writer().WriteBinary(data[off : off+e2PieceLen : off+e2PieceLen]) // cap == len: the last piece stays the tail node
					}
					if err == nil {
						err = c.Writer().Flush()
					}
				case "append":
					lb := NewLinkBuffer(call.N)
					p, _ := lb.Malloc(call.N)
					copy(p, data)
					lb.Flush()
					if err = c.Writer().Append(lb); err == nil {
						err = c.Writer().Flush()
					}
				case "ack":
					var p []byte
					p, err = c.Writer().Malloc(call.N + 1 + call.N/3)
					copy(p, data)
					if err == nil {
						err = c.Writer().MallocAck(call.N)
					}
					if err == nil {
						err = c.Writer().Flush()
					}
				case "mixed":
					h := call.N / 3
					var p []byte
					p, err = c.Writer().Malloc(h)
					copy(p, data[:h])
					if err == nil {
						_, err = c.Writer().WriteBinary(data[h : 2*h])
					}
					if err == nil {
						_, err = c.Writer().WriteString(string(data[2*h:]))
					}
					if err == nil {
						err = c.Writer().Flush()
					}
				default:
					var p []byte
					p, err = c.Writer().Malloc(call.N)
					copy(p, data)
					if err == nil {
						err = c.Writer().Flush()
					}
				}
				res.err = err
				inCall = false
				res.secondBusy = secondBusy
				if err == nil {
					res.lenAtRet = c.outputBuffer.Len()
					res.kernel = -1 // unknown once the peer end is gone: the kernel discards what it held
					if !peerClosed {
						res.kernel = len(o.received) + siocinq(wfd)
					}
				}
			}()
			res.returned = true
			res.endStep = w.s.StepCount()
			if res.err != nil {
				res.Err = res.err.Error()
				w.ev(fmt.Sprintf("flush%d-err", i))
				break // the guarantee covers a connection up to its first write error
			}
			w.ev(fmt.Sprintf("flush%d-", i))
		}
	})
	w.s.Go("peer", false, func() {
		buf := make([]byte, 16384)
		for _, k := range s.Drain {
			got := 0
			for got < k {
				vs.WaitFor(-51, func() bool { return siocinq(wfd) > 0 || peerClosed })
				n, err := syscall.Read(wfd, buf[:min(k-got, len(buf))])
				if n > 0 {
					o.received = append(o.received, buf[:n]...)
					got += n
					w.ev("peer-read")
				}
				if n == 0 || (err != nil && err != syscall.EAGAIN) {
					return
				}
			}
		}
		if s.PeerClose {
			vs.Yield(-52)
			peerClosed = true
			w.peerClose(wfd)
			w.ev("peer-close")
		}
	})
	if s.UserClose {
		w.s.Go("closer", false, func() {
			vs.Yield(-53)
			vs.Yield(-53)
			w.ev("user-close")
			c.Close()
		})
	}
	if s.Second {
		w.s.Go("second", false, func() {
			vs.Yield(-54)
			tries := 2
			if s.SecondTries > 0 {
				tries = s.SecondTries
			}
			for i := 0; i < tries; i++ {
				if s.SecondN > 0 {
					done := false
					vs.WaitFor(-57, func() bool { done = flusher.Done(); return inCall || done })
					if done {
						return
					}
					secondBusy = true
				}
				w.ev("second+")
				func() {
					defer func() {
						if p := recover(); p != nil {
							o.secondErr = append(o.secondErr, fmt.Errorf("panic: %v", p))
						}
					}()
					if s.SecondN > 0 {
						junk := make([]byte, s.SecondN)
						for j := range junk {
							junk[j] = 0xEE
						}
						n, err := c.Write(junk)
						if err == nil || n > 0 {
							o.secondOK++ // it got the lock: its bytes were buffered and may have been sent
						}
						if n != 0 && errors.Is(err, ErrConcurrentAccess) {
							err = fmt.Errorf("Write returned n=%d together with %v", n, err)
						}
						o.secondErr = append(o.secondErr, err)
						secondBusy = false
						return
					}
					err := c.Writer().Flush() // nothing of its own to submit: a pure concurrent Flush
					o.secondErr = append(o.secondErr, err)
				}()
				w.ev("second-")
				vs.Yield(-55)
			}
		})
	}
	if s.Fires > 0 {
		w.addClock("clock", func() *vs.Actor { return flusher }, func() *time.Timer { return c.writeTimer }, s.Fires)
	}
	parked, livelock := w.run(60000)
	o.livelock = livelock
	for _, a := range parked {
		o.parked = append(o.parked, a.Name)
	}
	if secondBusy {
		o.secondOK++ // still inside its Write at quiescence: it holds the connection, part of its bytes may be out
	}
	for _, e := range w.events() {
		if e.Name == "clock-fire" {
			o.fired = append(o.fired, e.Step)
		}
	}
	// whatever the kernel still holds belongs to the stream as well
	if !peerClosed {
		buf := make([]byte, 65536)
		for {
			n, _ := syscall.Read(wfd, buf)
			if n <= 0 {
				break
			}
			o.received = append(o.received, buf[:n]...)
		}
	}
	return o
}

func min(a, b int) int {
	if a < b {
		return a
	}
	return b
}

func judgeFlush(s flushScn, o *flushOutcome) (sig, msg string) {
	w := o.w
	logs := fmt.Sprint(w.names())
	if len(logs) > 1500 {
		logs = logs[:700] + " ... " + logs[len(logs)-700:]
	}
	if len(w.s.Crashes) > 0 {
		return "process-crash", "a panic escaped a goroutine netpoll starts itself: " + firstLine(w.s.Crashes[0])
	}
	if o.livelock {
		return "livelock", "the schedule did not quiesce within the step budget | events: " + logs
	}
	stepOf := func(name string) int {
		for _, e := range w.events() {
			if e.Name == name {
				return e.Step
			}
		}
		return -1
	}
	peerClose, userClose := stepOf("peer-close"), stepOf("user-close")
	// the peer's stream is always a prefix of what was submitted (C04: nothing lost, duplicated, reordered).
	// The guarantee covers a connection up to its first reported write error: once a Flush has reported
	// ErrWriteTimeout the poller may still be draining, and a further Flush (the concurrent flusher's)
	// is outside it (connection_impl.go says so itself: "we cannot flush it again").
	timedOut := false
	for _, r := range o.res {
		if r.err != nil && errors.Is(r.err, ErrWriteTimeout) {
			timedOut = true
		}
	}
	for _, e := range o.secondErr {
		if e != nil && errors.Is(e, ErrWriteTimeout) {
			timedOut = true
		}
	}
	exp := keyedBytes(0, len(o.received))
	submitted := o.submitted
	if timedOut && s.Second {
		exp = o.received
	}
	if s.SecondN > 0 && !(timedOut && s.Second) {
		// the bytes of accepted concurrent Writes (and of no others) are interleaved with the stream:
		// the submitted stream must be a subsequence, everything else must be their 0xEE bytes
		extra, k := 0, 0
		for _, b := range o.received {
			if k < o.submitted && b == keyed(k) {
				k++
			} else if b == 0xEE {
				extra++
			} else {
				return "stream-corrupt", fmt.Sprintf("the peer's byte stream has a byte that neither continues the submitted stream (offset %d) nor belongs to a concurrent Write | events: %s", k, logs)
			}
		}
		if extra > o.secondOK*s.SecondN {
			return "rejected-write-left-bytes", fmt.Sprintf("the peer received %d bytes of the concurrent Writes, only %d such Writes got hold of the connection (%d bytes each), the others were rejected with %v | events: %s", extra, o.secondOK, s.SecondN, o.secondErr, logs)
		}
		exp = o.received
		submitted += extra
	}
	if d := firstDiff(o.received, exp); d >= 0 {
		return "stream-corrupt", fmt.Sprintf("the peer's byte stream differs from the submitted stream at offset %d (received %d, submitted %d) | events: %s", d, len(o.received), o.submitted, logs)
	}
	if len(o.received) > submitted && !(timedOut && s.Second) {
		return "stream-extra", fmt.Sprintf("the peer received %d bytes, only %d were submitted", len(o.received), submitted)
	}
	firstErr := false
	for i, call := range s.Calls {
		res := o.res[i]
		desc := fmt.Sprintf("call %d %s(%d) timeout=%s", i, call.API, call.N, call.Timeout)
		if res.panicked != nil {
			return "panic", fmt.Sprintf("%s panicked: %v", desc, res.panicked)
		}
		if !res.returned {
			if firstErr || (i > 0 && !o.res[i-1].returned) {
				break
			}
			// blocked for ever: legal only while the socket is still full and nothing else happened
			drained := 0
			for _, k := range s.Drain {
				drained += k
			}
			submittedHere := 0
			for j := 0; j <= i; j++ {
				submittedHere += s.Calls[j].N
			}
			roomLeft := drained >= submittedHere+o.secondOK*s.SecondN // the peer's reads also went to accepted concurrent Writes
			if s.Prop == "C08" && (roomLeft || peerClose >= 0 || userClose >= 0) {
				return "lost-wakeup", fmt.Sprintf("%s is blocked for ever although drainedAll=%v peerClosed=%v userClosed=%v (received %d) | events: %s | %s", desc, roomLeft, peerClose >= 0, userClose >= 0, len(o.received), logs, w.s.Describe())
			}
			break
		}
		firedInCall := false
		for _, f := range o.fired {
			if f >= res.startStep && f <= res.endStep {
				firedInCall = true
			}
		}
		switch {
		case res.err == nil:
			if s.Prop == "C08" {
				if res.lenAtRet != 0 && userClose < 0 && !res.secondBusy {
					return "nil-with-pending", fmt.Sprintf("%s returned nil with %d bytes still in the output buffer | events: %s", desc, res.lenAtRet, logs)
				}
				junkOK := false // bytes of accepted concurrent Writes are in the kernel's count as well
				for j := 1; j <= o.secondOK && s.SecondN > 0; j++ {
					junkOK = junkOK || res.kernel == res.submitted+j*s.SecondN
				}
				if res.kernel >= 0 && res.kernel != res.submitted && !junkOK && !res.secondBusy {
					return "nil-before-kernel", fmt.Sprintf("%s returned nil when the kernel had taken %d of the %d bytes submitted so far | events: %s", desc, res.kernel, res.submitted, logs)
				}
			}
		case errors.Is(res.err, ErrWriteTimeout):
			firstErr = true
			if s.Prop == "C08" {
				if call.Timeout == "none" {
					return "timeout-without-timer", desc + " returned ErrWriteTimeout without a timeout configured | events: " + logs
				}
				if !firedInCall {
					return "timeout-without-expiry", desc + " returned ErrWriteTimeout although the timer did not expire during the call | events: " + logs
				}
			}
		case errors.Is(res.err, ErrConcurrentAccess):
			firstErr = true
			if s.Prop == "C08" && !s.Second {
				return "concurrent-without-second", desc + " returned ErrConcurrentAccess although nobody else was flushing | events: " + logs
			}
		case errors.Is(res.err, ErrConnClosed):
			firstErr = true
			if s.Prop == "C08" && (peerClose < 0 || peerClose > res.endStep) && (userClose < 0 || userClose > res.endStep) {
				return "closed-without-close", desc + " returned ErrConnClosed although nobody had closed the connection | events: " + logs
			}
		default:
			firstErr = true
			// EPIPE / ECONNRESET after the peer closed are the kernel's way of saying the same
			if peerClose < 0 || peerClose > res.endStep {
				return "unexpected-error", fmt.Sprintf("%s returned %v | events: %s", desc, res.err, logs)
			}
		}
	}
	if s.Prop == "C08" && !timedOut {
		for _, e := range o.secondErr {
			if e != nil && !errors.Is(e, ErrConcurrentAccess) && !errors.Is(e, ErrConnClosed) && !(peerClose >= 0) && !errors.Is(e, ErrWriteTimeout) {
				return "second-unexpected", fmt.Sprintf("the concurrent Flush returned %v | events: %s", e, logs)
			}
		}
	}
	// delivery at quiescence: everything successfully flushed has reached the peer
	if !firstErr && peerClose < 0 && userClose < 0 {
		okBytes := 0
		for i := range s.Calls {
			if o.res[i].returned && o.res[i].err == nil {
				okBytes = o.res[i].submitted
			}
		}
		if len(o.received) < okBytes {
			return "flushed-not-delivered", fmt.Sprintf("Flush returned nil for %d bytes, the peer could read only %d | events: %s", okBytes, len(o.received), logs)
		}
	}
	drainTotal := 0
	for _, k := range s.Drain {
		drainTotal += k
	}
	for _, n := range o.parked {
		if n == "second" && (drainTotal < o.submitted+o.secondOK*s.SecondN) && peerClose < 0 && userClose < 0 {
			continue // it took over the flush and the peer never drains: legitimately waiting
		}
		if n != "flusher" && n != "peer" {
			return "parked", fmt.Sprintf("actor %s still blocked at quiescence | events: %s | %s", n, logs, w.s.Describe())
		}
	}
	return "", ""
}

func flushProperty(prop string, st *vStats) func(t *rapid.T) {
	return func(t *rapid.T) {
		s := genFlushScn(t, prop)
		o := runFlush(t, s, nil)
		defer o.w.close()
		st.eval()
		e2TraceHash(st, o.w)
		if sig, msg := judgeFlush(s, o); sig != "" && e2Confirmed(st, o.w, func(d []vs.Step) string {
			o2 := runFlush(nil, s, d)
			defer o2.w.close()
			s2, _ := judgeFlush(s, o2)
			return s2
		}) {
			rep := e2Replay{Scenario: s, Strategy: o.w.strategy, Decisions: o.w.trace(), TraceTail: o.w.describeTrace(40)}
			vReport(vViolation{Property: prop, Slot: "rapid:" + prop, Signature: sig, Message: msg, Replay: rep})
			t.Fatalf("%s violated [%s]: %s\nscenario: %+v\nlast steps:\n%s", prop, sig, msg, s, o.w.describeTrace(30))
		}
		for i := range s.Calls {
			r := o.res[i]
			switch {
			case !r.returned:
				st.class("outcome-blocked-or-skipped")
			case r.err == nil:
				st.class("outcome-ok")
			case errors.Is(r.err, ErrWriteTimeout):
				st.class("outcome-timeout")
			case errors.Is(r.err, ErrConcurrentAccess):
				st.class("outcome-concurrent")
			default:
				st.class("outcome-closed")
			}
		}
		st.classN("steps", int64(len(o.w.s.Trace)))
		if o.waited {
			st.class("nontrivial")
			if st.nontrivial(fmt.Sprintf("%+v|%d", s, len(o.w.s.Trace))) {
				var rs []string
				for i, r := range o.res {
					rs = append(rs, fmt.Sprintf("%s(%d)/%s -> %q returned=%v", s.Calls[i].API, s.Calls[i].N, s.Calls[i].Timeout, r.Err, r.returned))
				}
				st.sample(map[string]interface{}{"scenario": s, "results": rs, "received": len(o.received), "steps": len(o.w.s.Trace)})
			}
		}
	}
}

func flushTest(t *testing.T, prop string) {
	st := newStats(prop)
	defer st.write()
	if vReplay != "" {
		var rec struct {
			Scenario  flushScn  `json:"scenario"`
			Decisions []vs.Step `json:"decisions"`
		}
		if err := vLoadReplay(&rec); err != nil {
			t.Fatalf("replay: %v", err)
		}
		rec.Scenario.Prop = prop
		o := runFlush(nil, rec.Scenario, rec.Decisions)
		defer o.w.close()
		st.eval()
		if sig, msg := judgeFlush(rec.Scenario, o); sig != "" {
			vReport(vViolation{Property: prop, Slot: "replay:" + prop, Signature: sig, Message: msg, Replay: e2Replay{Scenario: rec.Scenario, Decisions: o.w.trace(), Events: o.w.names(), TraceTail: o.w.describeTrace(60)}})
			t.Fatalf("%s violated [%s]: %s\nlast steps:\n%s\nstate: %s", prop, sig, msg, o.w.describeTrace(60), o.w.s.Describe())
		}
		return
	}
	rapid.Check(t, flushProperty(prop, st))
}

func TestVerifC08(t *testing.T) { flushTest(t, "C08") }

// ------------------------------------------------------------------ C04, hand-off half (E2)

// TestVerifC04 drives both directions of one connection under generated schedules: the writer side
// through the flush scenario (no timeouts, no concurrent flusher: the guarantee covers a connection up to
// its first write error) and the reader side through the read scenario; the oracle is the position-keyed stream.
func TestVerifC04(t *testing.T) {
	st := newStats("C04")
	defer st.write()
	if vReplay != "" {
		var probe struct {
			Scenario struct {
				Calls []struct {
					API string `json:"api"`
				} `json:"calls"`
			} `json:"scenario"`
		}
		vLoadReplay(&probe)
		if len(probe.Scenario.Calls) > 0 && probe.Scenario.Calls[0].API != "" {
			var rec struct {
				Scenario  flushScn  `json:"scenario"`
				Decisions []vs.Step `json:"decisions"`
			}
			vLoadReplay(&rec)
			rec.Scenario.Prop = "C04"
			o := runFlush(nil, rec.Scenario, rec.Decisions)
			defer o.w.close()
			st.eval()
			if sig, msg := judgeFlush(rec.Scenario, o); sig != "" {
				vReport(vViolation{Property: "C04", Slot: "replay:C04", Signature: sig, Message: msg, Replay: e2Replay{Scenario: rec.Scenario, Decisions: o.w.trace()}})
				t.Fatalf("C04 violated [%s]: %s", sig, msg)
			}
			return
		}
		var rec struct {
			Scenario  readScn   `json:"scenario"`
			Decisions []vs.Step `json:"decisions"`
		}
		vLoadReplay(&rec)
		o := runRead(nil, rec.Scenario, rec.Decisions)
		defer o.w.close()
		st.eval()
		if sig, msg := judgeRead(rec.Scenario, o); sig != "" {
			vReport(vViolation{Property: "C04", Slot: "replay:C04", Signature: sig, Message: msg, Replay: e2Replay{Scenario: rec.Scenario, Decisions: o.w.trace()}})
			t.Fatalf("C04 violated [%s]: %s", sig, msg)
		}
		return
	}
	excl := vExclusions()
	rapid.Check(t, func(t *rapid.T) {
		if rapid.Bool().Draw(t, "direction-write") {
			s := genFlushScn(t, "C04")
			s.Second, s.Fires, s.UserClose = false, 0, false
			for i := range s.Calls {
				s.Calls[i].Timeout = "none"
			}
			o := runFlush(t, s, nil)
			defer o.w.close()
			st.eval()
			e2TraceHash(st, o.w)
			if sig, msg := judgeFlush(s, o); sig != "" && e2Confirmed(st, o.w, func(d []vs.Step) string {
				o2 := runFlush(nil, s, d)
				defer o2.w.close()
				s2, _ := judgeFlush(s, o2)
				return s2
			}) {
				vReport(vViolation{Property: "C04", Slot: "rapid:C04", Signature: sig, Message: msg, Replay: e2Replay{Scenario: s, Strategy: o.w.strategy, Decisions: o.w.trace(), TraceTail: o.w.describeTrace(40)}})
				t.Fatalf("C04 violated [%s]: %s\nscenario: %+v", sig, msg, s)
			}
			st.class("write-direction")
			if o.waited {
				st.class("nontrivial")
				if st.nontrivial(fmt.Sprintf("%+v|%d", s, len(o.w.s.Trace))) {
					st.sample(map[string]interface{}{"direction": "write", "scenario": s, "received": len(o.received), "steps": len(o.w.s.Trace)})
				}
			}
			return
		}
		s := genReadScn(t, excl)
		s.Fires, s.UserClose = 0, false
		for i := range s.Calls {
			s.Calls[i].Timeout = "none"
			if rapid.Bool().Draw(t, "bigger") && s.Calls[i].Op != "rbyte" {
				s.Calls[i].N = rapid.IntRange(1, 9000).Draw(t, "n")
			}
		}
		// re-plan the peer's chunks for the (possibly larger) needs
		total := 0
		for _, c := range s.Calls {
			if c.Op != "peek" {
				total += c.N
			}
		}
		s.Peer = nil
		left := total + rapid.IntRange(0, 3).Draw(t, "extra")
		for left > 0 && len(s.Peer) < 8 {
			k := rapid.OneOf(rapid.IntRange(1, left), rapid.Just(left), rapid.IntRange(1, 64)).Draw(t, "chunk")
			if k > left {
				k = left
			}
			s.Peer = append(s.Peer, peerAct{Op: "write", N: k})
			left -= k
		}
		if left > 0 {
			s.Peer = append(s.Peer, peerAct{Op: "write", N: left})
		}
		if rapid.Bool().Draw(t, "peerclose") {
			s.Peer = append(s.Peer, peerAct{Op: "close"})
		}
		o := runRead(t, s, nil)
		defer o.w.close()
		st.eval()
		e2TraceHash(st, o.w)
		if sig, msg := judgeRead(s, o); sig != "" && e2Confirmed(st, o.w, func(d []vs.Step) string {
			o2 := runRead(nil, s, d)
			defer o2.w.close()
			s2, _ := judgeRead(s, o2)
			return s2
		}) {
			vReport(vViolation{Property: "C04", Slot: "rapid:C04", Signature: sig, Message: msg, Replay: e2Replay{Scenario: s, Strategy: o.w.strategy, Decisions: o.w.trace(), Events: o.w.names(), TraceTail: o.w.describeTrace(40)}})
			t.Fatalf("C04 violated [%s]: %s\nscenario: %+v", sig, msg, s)
		}
		st.class("read-direction")
		blockedOnce := false
		for _, e := range o.w.s.Trace {
			if e.Actor == 1 && (e.Kind == "recv" || e.Kind == "select") {
				blockedOnce = true
			}
		}
		if blockedOnce {
			st.class("nontrivial")
			if st.nontrivial(fmt.Sprintf("%+v|%v", s, o.w.names())) {
				st.sample(map[string]interface{}{"direction": "read", "scenario": s, "events": o.w.names()})
			}
		}
	})
}
