//go:build go1.18

// E2 scenario "closed" (C12): every Connection/Reader/Writer method on a connection whose close has
// completed. The space close mode x input x output x callbacks x method x repeat is finite: the quick
// tier samples it (with generated schedules), the thorough tier also enumerates it completely.
package netpoll

import (
	"context"
	"errors"
	"fmt"
	"os"
	"strconv"
	"syscall"
	"testing"
	"time"

	vs "github.com/cloudwego/netpoll/internal/verifsched"
	"pgregory.net/rapid"
)

type closedScn struct {
	Mode      string `json:"mode"`      // user, peer, peer-user, detach
	Input     int    `json:"input"`     // bytes buffered and unread when the close happens
	Output    bool   `json:"output"`    // malloc'd, unflushed bytes when the close happens
	Callbacks int    `json:"callbacks"` // 0 none, 1 OnRequest, 2 OnConnect+OnRequest
	Method    string `json:"method"`
	Repeat    int    `json:"repeat"`
	// BigPrior: long before the close the peer sent 9000 bytes at once (more than a page: the connection's
	// buffer bookkeeping - maxSize, tail reset - leaves its small-packet regime) and they were read and released
	BigPrior  bool   `json:"big_prior,omitempty"`
	PriorWait bool   `json:"prior_wait,omitempty"` // a read timeout is set and one Reader call really waited before the close (no-callback connections)
}

var (
	closedModes   = []string{"user", "peer", "peer-user", "detach"}
	closedInputs  = []int{0, 5}
	closedMethods = []string{
		// Reader
		"next-within", "next-beyond", "peek-within", "peek-beyond", "skip-within", "skip-beyond", "until", "readstring", "readbinary", "readbyte", "slice", "release", "len", "read",
		// Writer
		"malloc", "writestring", "writebinary", "writebinary-big", "writebyte", "writedirect", "mallocack", "append", "flush", "malloclen", "write",
		// Connection
		"close", "detach", "isactive", "setreadtimeout", "setwritetimeout", "setidletimeout", "setonrequest", "addclosecallback", "localaddr", "remoteaddr", "fd", "setdeadline", "reader-writer",
	}
)

func closedSpace() int {
	return len(closedModes) * len(closedInputs) * 2 * 3 * len(closedMethods) * 2 * 2 * 2
}

func closedFromIndex(i int) closedScn {
	s := closedScn{}
	s.Method = closedMethods[i%len(closedMethods)]
	i /= len(closedMethods)
	s.Repeat = 1 + i%2
	i /= 2
	s.Callbacks = i % 3
	i /= 3
	s.Output = i%2 == 1
	i /= 2
	s.Input = closedInputs[i%len(closedInputs)]
	i /= len(closedInputs)
	s.Mode = closedModes[i%len(closedModes)]
	i /= len(closedModes)
	s.PriorWait = i%2 == 1
	i /= 2
	s.BigPrior = i%2 == 1
	return s
}

type closedOutcome struct {
	w        *e2World
	c        *connection
	errs     []error
	data     [][]byte
	panics   []string
	blocked  bool
	livelock bool
	parked   []string
	setupBad string
	leftover int // input bytes still buffered when the method ran
}

func runClosed(t *rapid.T, s closedScn, replay []vs.Step) *closedOutcome {
	w := newE2World(t, 1, replay)
	o := &closedOutcome{w: w}
	r, wfd := w.socketpair()
	c := new(connection)
	o.c = c
	opts := &options{}
	handlerRuns := 0
	bigSeen := 0
	if s.Callbacks >= 1 {
		opts.onRequest = func(ctx context.Context, conn Connection) error {
			handlerRuns++
			if s.BigPrior && bigSeen < 9000 {
				// the big packet is taken only when it is complete, so that more than a page is buffered at once
				// (a slow handler: the poller goes on filling the buffer meanwhile)
				vs.WaitFor(-75, func() bool { return conn.Reader().Len() >= 9000 })
				n := conn.Reader().Len()
				bigSeen += n
				conn.Reader().Skip(n)
				conn.Reader().Release()
				return nil
			}
			// a handler must read everything or close: with unread input wanted at close time it closes
			if s.Input > 0 && (s.Mode == "user" || s.Mode == "detach") {
				if s.Mode == "detach" {
					conn.(*connection).Detach()
				} else {
					conn.Close()
				}
				return nil
			}
			n := conn.Reader().Len()
			conn.Reader().Skip(n)
			conn.Reader().Release()
			return nil
		}
	}
	if s.Callbacks == 2 {
		opts.onConnect = func(ctx context.Context, conn Connection) context.Context { return ctx }
	}
	w.s.Go("setup", false, func() {
		if s.Callbacks == 0 {
			c.init(&netFD{fd: r, network: "unix", remoteAddr: &UnixAddr{}, localAddr: &UnixAddr{}}, nil)
		} else {
			c.init(&netFD{fd: r, network: "unix", remoteAddr: &UnixAddr{}, localAddr: &UnixAddr{}}, opts)
			c.onConnect()
		}
		if s.PriorWait && s.Callbacks == 0 {
			// a timed read that really waits (the byte arrives while it is parked), long before the close
			c.SetReadTimeout(time.Hour)
			me := w.s.Self()
			w.s.Go("feeder", false, func() {
				vs.WaitFor(-73, func() bool { return me.Blocked() })
				syscall.Write(wfd, []byte{0x7f})
			})
			if p, err := c.Reader().Next(1); err != nil || len(p) != 1 {
				o.setupBad = fmt.Sprintf("the prior timed read failed: %v", err)
			}
			c.Reader().Release()
		}
		if s.BigPrior {
			syscall.Write(wfd, keyedBytes(100000, 9000))
			if s.Callbacks == 0 {
				if p, err := c.Reader().Next(9000); err != nil || len(p) != 9000 {
					o.setupBad = fmt.Sprintf("the prior big read failed: %v", err)
				}
				c.Reader().Release()
			} else {
				vs.WaitFor(-74, func() bool { return bigSeen >= 9000 && c.inputBuffer.Len() == 0 })
			}
		}
		if s.Output {
			if p, err := c.Writer().Malloc(10); err == nil {
				copy(p, "unflushed!")
			}
		}
		if s.Input > 0 {
			before := handlerRuns
			syscall.Write(wfd, keyedBytes(0, s.Input))
			if s.Callbacks == 0 {
				vs.WaitFor(-70, func() bool { return c.inputBuffer.Len() >= s.Input })
			} else {
				vs.WaitFor(-70, func() bool { return handlerRuns > before })
			}
		}
		switch s.Mode {
		case "user":
			c.Close()
		case "detach":
			c.Detach()
		case "peer":
			w.peerClose(wfd)
		case "peer-user":
			w.peerClose(wfd)
			vs.WaitFor(-71, func() bool { return !c.IsActive() })
			vs.Yield(-71)
			c.Close()
		}
	})
	parked, livelock := w.run(30000)
	if livelock || len(parked) > 0 {
		o.livelock = livelock
		for _, a := range parked {
			o.parked = append(o.parked, a.Name)
		}
		o.setupBad = fmt.Sprintf("the close itself did not complete (livelock=%v parked=%v)", livelock, o.parked)
		return o
	}
	if o.setupBad != "" {
		return o
	}
	if c.IsActive() {
		o.setupBad = "the connection is still active after the close completed"
		return o
	}
	func() {
		defer func() { recover() }()
		o.leftover = c.inputBuffer.Len()
	}()
	w.s.Go("caller", false, func() {
		for i := 0; i < s.Repeat; i++ {
			func() {
				defer func() {
					if p := recover(); p != nil {
						o.panics = append(o.panics, fmt.Sprint(p))
						o.errs = append(o.errs, nil)
						o.data = append(o.data, nil)
					}
				}()
				p, err := closedCall(c, s.Method, o.leftover)
				o.errs = append(o.errs, err)
				o.data = append(o.data, p)
			}()
			vs.Yield(-72)
		}
		// "Close is idempotent in any order": whatever was called before, a final Close returns
		func() {
			defer func() {
				if p := recover(); p != nil {
					o.panics = append(o.panics, "final Close: "+fmt.Sprint(p))
				}
			}()
			c.Close()
		}()
	})
	parked, livelock = w.run(30000)
	o.livelock = livelock
	for _, a := range parked {
		o.parked = append(o.parked, a.Name)
		if a.Name == "caller" {
			o.blocked = true
		}
	}
	return o
}

var errNotApplicable = errors.New("n/a")

// closedCall invokes one method; `have` is the number of input bytes still buffered.
func closedCall(c *connection, m string, have int) (data []byte, err error) {
	within := have
	if within == 0 {
		within = 1 // nothing buffered: every read "needs more than is buffered"
	}
	switch m {
	case "next-within":
		return c.Reader().Next(within)
	case "next-beyond":
		return c.Reader().Next(have + 1)
	case "peek-within":
		return c.Reader().Peek(within)
	case "peek-beyond":
		return c.Reader().Peek(have + 1)
	case "skip-within":
		return nil, c.Reader().Skip(within)
	case "skip-beyond":
		return nil, c.Reader().Skip(have + 1)
	case "until":
		return c.Reader().Until(0xFF)
	case "readstring":
		s, e := c.Reader().ReadString(have + 1)
		return []byte(s), e
	case "readbinary":
		return c.Reader().ReadBinary(have + 1)
	case "readbyte":
		b, e := c.Reader().ReadByte()
		return []byte{b}, e
	case "slice":
		_, e := c.Reader().Slice(have + 1)
		return nil, e
	case "release":
		return nil, c.Reader().Release()
	case "len":
		c.Reader().Len()
		return nil, errNotApplicable
	case "read":
		p := make([]byte, have+1)
		n, e := c.Read(p)
		return p[:n], e
	case "malloc":
		_, e := c.Writer().Malloc(8)
		return nil, e
	case "writestring":
		_, e := c.Writer().WriteString("hello")
		return nil, e
	case "writebinary":
		_, e := c.Writer().WriteBinary([]byte("hello"))
		return nil, e
	case "writebinary-big":
		_, e := c.Writer().WriteBinary(make([]byte, 5000))
		return nil, e
	case "writebyte":
		return nil, c.Writer().WriteByte('x')
	case "writedirect":
		return nil, c.Writer().WriteDirect([]byte("direct"), 0)
	case "mallocack":
		return nil, c.Writer().MallocAck(0)
	case "append":
		b := NewLinkBuffer()
		b.WriteString("appended")
		b.Flush()
		return nil, c.Writer().Append(b)
	case "flush":
		return nil, c.Writer().Flush()
	case "malloclen":
		c.Writer().MallocLen()
		return nil, errNotApplicable
	case "write":
		_, e := c.Write([]byte("hello"))
		return nil, e
	case "close":
		return nil, c.Close()
	case "detach":
		return nil, c.Detach()
	case "isactive":
		if c.IsActive() {
			return nil, errors.New("IsActive returned true on a closed connection")
		}
		return nil, errNotApplicable
	case "setreadtimeout":
		c.SetReadTimeout(time.Second)
		return nil, errNotApplicable
	case "setwritetimeout":
		c.SetWriteTimeout(time.Second)
		return nil, errNotApplicable
	case "setidletimeout":
		c.SetIdleTimeout(time.Second)
		return nil, errNotApplicable
	case "setonrequest":
		c.SetOnRequest(func(ctx context.Context, conn Connection) error {
			conn.Reader().Skip(conn.Reader().Len())
			return nil
		})
		return nil, errNotApplicable
	case "addclosecallback":
		c.AddCloseCallback(func(Connection) error { return nil })
		return nil, errNotApplicable
	case "localaddr":
		c.LocalAddr()
		return nil, errNotApplicable
	case "remoteaddr":
		c.RemoteAddr()
		return nil, errNotApplicable
	case "fd":
		c.Fd()
		return nil, errNotApplicable
	case "setdeadline":
		c.SetDeadline(time.Now().Add(time.Hour))
		c.SetReadDeadline(time.Now().Add(time.Hour))
		c.SetWriteDeadline(time.Now().Add(time.Hour))
		return nil, errNotApplicable
	case "reader-writer":
		c.Reader()
		c.Writer()
		return nil, errNotApplicable
	}
	panic("closedCall: unknown method " + m)
}

func isWriterMethod(m string) bool {
	switch m {
	case "malloc", "writestring", "writebinary", "writebinary-big", "writebyte", "writedirect", "mallocack", "append", "flush", "write":
		return true
	}
	return false
}

func judgeClosed(s closedScn, o *closedOutcome) (sig, msg string) {
	w := o.w
	desc := fmt.Sprintf("%s after close mode=%s input=%d(left %d) output=%v callbacks=%d priorTimedWait=%v", s.Method, s.Mode, s.Input, o.leftover, s.Output, s.Callbacks, s.PriorWait)
	if len(w.s.Crashes) > 0 {
		return "process-crash", desc + ": a panic escaped a goroutine netpoll starts itself: " + firstLine(w.s.Crashes[0])
	}
	if o.setupBad != "" {
		return "close-incomplete", desc + ": " + o.setupBad
	}
	if len(o.panics) > 0 {
		return "panic:" + s.Method, fmt.Sprintf("%s panicked: %s", desc, o.panics[0])
	}
	if o.blocked {
		return "blocks:" + s.Method, desc + " blocks for ever | " + w.s.Describe()
	}
	if o.livelock {
		return "livelock", desc + ": the schedule did not quiesce"
	}
	for _, n := range o.parked {
		return "parked", fmt.Sprintf("%s: actor %s still blocked at quiescence", desc, n)
	}
	localClose := s.Mode != "peer"
	for i, err := range o.errs {
		if err == errNotApplicable {
			continue
		}
		call := fmt.Sprintf("%s (call %d)", desc, i+1)
		switch {
		case isWriterMethod(s.Method):
			if !errors.Is(err, ErrConnClosed) {
				return "writer-not-closed-error:" + s.Method, fmt.Sprintf("%s returned %v, want an error matching ErrConnClosed", call, err)
			}
		case s.Method == "close" || s.Method == "detach":
			if err != nil {
				return "close-error", fmt.Sprintf("%s returned %v", call, err)
			}
		case s.Method == "next-beyond" || s.Method == "peek-beyond" || s.Method == "skip-beyond" || s.Method == "readstring" || s.Method == "readbinary" || s.Method == "slice" ||
			((s.Method == "next-within" || s.Method == "peek-within" || s.Method == "skip-within" || s.Method == "readbyte" || s.Method == "read") && o.leftover == 0):
			// needs more than is buffered
			if localClose {
				if !errors.Is(err, ErrConnClosed) {
					return "reader-not-closed-error:" + s.Method, fmt.Sprintf("%s returned %v, want an error matching ErrConnClosed", call, err)
				}
			} else if !(errors.Is(err, ErrEOF) && errors.Is(err, ErrConnClosed)) {
				return "reader-not-eof:" + s.Method, fmt.Sprintf("%s returned %v, want an error matching both ErrEOF and ErrConnClosed", call, err)
			}
		case s.Method == "until":
			if err == nil {
				return "until-no-error", call + " returned nil although the delimiter cannot arrive any more"
			}
		case (s.Method == "next-within" || s.Method == "peek-within") && !localClose && i == 0:
			// after a peer close the buffered bytes can still be read
			if err != nil || string(o.data[i]) != string(keyedBytes(0, o.leftover)) {
				return "buffered-not-readable:" + s.Method, fmt.Sprintf("%s returned %d bytes, %v; want the %d buffered bytes", call, len(o.data[i]), err, o.leftover)
			}
		}
	}
	return "", ""
}

func closedRun(prop string, s closedScn, t *rapid.T, st *vStats, slot string) (string, string) {
	o := runClosed(t, s, nil)
	defer o.w.close()
	st.eval()
	sig, msg := judgeClosed(s, o)
	if sig != "" && !e2Confirmed(st, o.w, func(d []vs.Step) string {
		o2 := runClosed(nil, s, d)
		defer o2.w.close()
		s2, _ := judgeClosed(s, o2)
		return s2
	}) {
		return "", ""
	}
	if sig != "" {
		vReport(vViolation{Property: prop, Slot: slot, Signature: sig, Message: msg, Replay: e2Replay{Scenario: s, Strategy: o.w.strategy, Decisions: o.w.trace()}})
		return sig, msg
	}
	st.class("mode-" + s.Mode)
	if o.leftover > 0 {
		st.class("input-left-buffered")
	}
	if st.nontrivial(fmt.Sprintf("%+v", s)) {
		var es []string
		for _, e := range o.errs {
			es = append(es, fmt.Sprint(e))
		}
		st.sample(map[string]interface{}{"scenario": s, "results": es})
	}
	return "", ""
}

func TestVerifC12(t *testing.T) {
	st := newStats("C12")
	defer st.write()
	if vReplay != "" {
		var rec struct {
			Scenario  closedScn `json:"scenario"`
			Decisions []vs.Step `json:"decisions"`
		}
		if err := vLoadReplay(&rec); err != nil {
			t.Fatalf("replay: %v", err)
		}
		o := runClosed(nil, rec.Scenario, rec.Decisions)
		defer o.w.close()
		st.eval()
		if sig, msg := judgeClosed(rec.Scenario, o); sig != "" {
			vReport(vViolation{Property: "C12", Slot: "replay:C12", Signature: sig, Message: msg, Replay: e2Replay{Scenario: rec.Scenario, Decisions: o.w.trace()}})
			t.Fatalf("C12 violated [%s]: %s", sig, msg)
		}
		return
	}
	space := closedSpace()
	st.Extra["space_size"] = strconv.Itoa(space)
	if vTier == "thorough" && os.Getenv("VERIF_CHUNK") == "0" {
		// complete enumeration, natural-order schedule; the indices are split over the shards
		shard, shards := vEnvInt("VERIF_SHARD", 0), vEnvInt("VERIF_SHARDS", 1)
		n := 0
		for i := shard; i < space; i += shards {
			s := closedFromIndex(i)
			if sig, msg := closedRun("C12", s, nil, st, fmt.Sprintf("enum:%d", i)); sig != "" {
				t.Errorf("C12 violated [%s]: %s", sig, msg)
			}
			n++
		}
		st.Extra["enumerated"] = n
	}
	rapid.Check(t, func(t *rapid.T) {
		s := closedScn{
			Mode:      rapid.SampledFrom(closedModes).Draw(t, "mode"),
			Input:     rapid.SampledFrom(closedInputs).Draw(t, "input"),
			Output:    rapid.Bool().Draw(t, "output"),
			Callbacks: rapid.IntRange(0, 2).Draw(t, "callbacks"),
			Method:    rapid.SampledFrom(closedMethods).Draw(t, "method"),
			Repeat:    rapid.IntRange(1, 2).Draw(t, "repeat"),
			PriorWait: rapid.Bool().Draw(t, "priorwait"),
			BigPrior:  rapid.Bool().Draw(t, "bigprior"),
		}
		if sig, msg := closedRun("C12", s, t, st, "rapid:C12"); sig != "" {
			t.Fatalf("C12 violated [%s]: %s\nscenario: %+v", sig, msg, s)
		}
	})
}
