//go:build go1.18

// E3 livenet: generated workloads on real threads, real pollers, real sockets. Oracles are
// schedule-independent (position-keyed streams, censuses), waiting is "until condition, with a stall
// bound measured from the last observed progress".
package netpoll

import (
	"context"
	"encoding/json"
	"fmt"
	"io"
	"net"
	"os"
	"path/filepath"
	"runtime"
	"strconv"
	"strings"
	"sync"
	"sync/atomic"
	"syscall"
	"testing"
	"time"

	"pgregory.net/rapid"
)

var e3Once sync.Once

func e3Init() {
	e3Once.Do(func() {
		SetLoggerOutput(io.Discard)
		// make the Go runtime create its own epoll instance and wake-up descriptor now,
		// so that they are part of every census baseline
		if ln, err := net.Listen("tcp4", "127.0.0.1:0"); err == nil {
			ln.Close()
		}
		fdCensus()
		go e3Heartbeat()
	})
}

// e3Heartbeat measures how late this process's goroutines are being run: it sleeps a millisecond at a time
// and keeps the largest oversleep. Checks that compare a duration with a bound ask e3Starved first: on a
// machine with hundreds of runnable threads per core a goroutine can sit for seconds before it runs, and a
// measured duration then says nothing about the code under test.
var e3LateMu sync.Mutex
var e3Late []struct {
	at   time.Time
	late time.Duration
}

func e3Heartbeat() {
	for {
		t0 := time.Now()
		time.Sleep(time.Millisecond)
		if late := time.Since(t0) - time.Millisecond; late > 50*time.Millisecond {
			e3LateMu.Lock()
			e3Late = append(e3Late, struct {
				at   time.Time
				late time.Duration
			}{time.Now(), late})
			if len(e3Late) > 4096 {
				e3Late = e3Late[2048:]
			}
			e3LateMu.Unlock()
		}
	}
}

// e3Starved returns the largest scheduling delay seen since the given time.
func e3Starved(since time.Time) (max time.Duration) {
	e3LateMu.Lock()
	defer e3LateMu.Unlock()
	for _, l := range e3Late {
		if l.at.After(since) && l.late > max {
			max = l.late
		}
	}
	return
}

var e3StallBound = 30 * time.Second

// waitProgress waits until done() holds; progress() is a monotone counter - the wait fails only
// when it has not moved for e3StallBound. The bound counts time during which this process was being
// scheduled: of every polling interval at most 5 ms count, so that on a starved machine (intervals of
// seconds) the bound stretches instead of turning slowness into a verdict.
func waitProgress(done func() bool, progress func() int64) bool {
	last, quiet, at := progress(), time.Duration(0), time.Now()
	for !done() {
		time.Sleep(200 * time.Microsecond)
		now := time.Now()
		d := now.Sub(at)
		at = now
		if d > 5*time.Millisecond {
			d = 5 * time.Millisecond
		}
		if p := progress(); p != last {
			last, quiet = p, 0
		} else if quiet += d; quiet > e3StallBound {
			return false
		}
	}
	return true
}

func goroutineDump() string {
	buf := make([]byte, 1<<20)
	return string(buf[:runtime.Stack(buf, true)])
}

var e3SockSeq int64

func e3Listen(network string) (net.Listener, string, error) {
	switch network {
	case "unix":
		path := filepath.Join(os.TempDir(), fmt.Sprintf("verif-%d-%d.sock", os.Getpid(), atomic.AddInt64(&e3SockSeq, 1)))
		os.Remove(path)
		ln, err := net.Listen("unix", path)
		return ln, path, err
	case "tcp6":
		ln, err := net.Listen("tcp6", "[::1]:0")
		if err != nil {
			return nil, "", err
		}
		return ln, ln.Addr().String(), nil
	default:
		ln, err := net.Listen("tcp4", "127.0.0.1:0")
		if err != nil {
			return nil, "", err
		}
		return ln, ln.Addr().String(), nil
	}
}

func fdCensus() map[int]string {
	m := map[int]string{}
	ents, err := os.ReadDir("/proc/self/fd")
	if err != nil {
		return m
	}
	for _, e := range ents {
		n, err := strconv.Atoi(e.Name())
		if err != nil {
			continue
		}
		l, err := os.Readlink("/proc/self/fd/" + e.Name())
		if err != nil {
			continue // the descriptor of the directory listing itself
		}
		m[n] = l
	}
	return m
}

func socketCount() int {
	n := 0
	for _, l := range fdCensus() {
		if strings.HasPrefix(l, "socket:") {
			n++
		}
	}
	return n
}

// ------------------------------------------------------------------ C04 bulk

type liveConn struct {
	Total   int   `json:"total"`   // bytes client -> server
	Back    int   `json:"back"`    // bytes server -> client
	Chunks  []int `json:"chunks"`  // client write sizes (cycled)
	APIs    []int `json:"apis"`    // writer API per write (cycled): 0 Malloc+Flush 1 Write 2 WriteBinary 3 WriteString 4 mixed+one Flush 5 many 4097-byte WriteBinary pieces + one Flush
	Reads   []int `json:"reads"`   // reader request sizes (cycled)
	ReadOps []int `json:"readops"` // 0 Next 1 Peek+Skip 2 ReadBinary 3 Slice 4 Read 5 ReadString 6 Peek+ReadByte+Peek+Skip (frame parser) 7 ReadByte xN
	SndBuf  int   `json:"sndbuf"`
	RcvBuf  int   `json:"rcvbuf"`
	PaceUS  int   `json:"pace_us"`
	OneStep bool  `json:"one_step,omitempty"`          // the server's handler takes one read per invocation (the loop re-invokes it)
	CloseAW bool  `json:"close_after_write,omitempty"` // the client closes right after its last Flush (send-and-close)
}

type liveScn struct {
	Network string     `json:"network"`
	Conns   []liveConn `json:"conns"`
	// BufSize > 0: Configure(Config{BufferSize}) - the size of a new connection's first input node
	BufSize int `json:"bufsize,omitempty"`
}

func genLiveScn(t *rapid.T, big bool) liveScn {
	s := liveScn{Network: rapid.SampledFrom([]string{"tcp4", "tcp4", "tcp6", "unix"}).Draw(t, "network")}
	if !hasIPv6() && s.Network == "tcp6" {
		s.Network = "tcp4"
	}
	s.BufSize = rapid.SampledFrom([]int{0, 0, 128, 1024, 4096}).Draw(t, "bufsize")
	nc := rapid.IntRange(1, 4).Draw(t, "nconns")
	for i := 0; i < nc; i++ {
		c := liveConn{}
		maxTotal := 1 << 20
		if big {
			maxTotal = 8 << 20
		}
		c.Total = rapid.OneOf(rapid.IntRange(1, 2000), rapid.IntRange(1, 200000), rapid.IntRange(1, maxTotal)).Draw(t, "total")
		c.Back = rapid.OneOf(rapid.Just(0), rapid.IntRange(1, 2000), rapid.IntRange(1, maxTotal/4)).Draw(t, "back")
		for j, n := 0, rapid.IntRange(1, 5).Draw(t, "nchunks"); j < n; j++ {
			c.Chunks = append(c.Chunks, rapid.OneOf(rapid.IntRange(1, 100), rapid.IntRange(1, 9000), rapid.IntRange(4000, 300000), rapid.SampledFrom([]int{4095, 4096, 4097, 8192})).Draw(t, "chunk"))
			c.APIs = append(c.APIs, rapid.IntRange(0, 7).Draw(t, "api"))
		}
		for j, n := 0, rapid.IntRange(1, 5).Draw(t, "nreads"); j < n; j++ {
			c.Reads = append(c.Reads, rapid.OneOf(rapid.IntRange(1, 100), rapid.IntRange(1, 9000), rapid.IntRange(4000, 100000)).Draw(t, "read"))
			c.ReadOps = append(c.ReadOps, rapid.IntRange(0, 7).Draw(t, "readop"))
		}
		c.SndBuf = rapid.SampledFrom([]int{0, 2048, 4096, 16384, 65536}).Draw(t, "sndbuf")
		c.RcvBuf = rapid.SampledFrom([]int{0, 2048, 4096, 16384, 65536}).Draw(t, "rcvbuf")
		c.PaceUS = rapid.SampledFrom([]int{0, 0, 0, 20, 200}).Draw(t, "pace")
		c.OneStep = rapid.IntRange(0, 2).Draw(t, "onestep") == 0
		// bound the work of one connection by its number of steps, not by a clock: a stream of megabytes read
		// one byte at a time with a pause after every read would take the better part of an hour
		avg := func(xs []int) int {
			sum := 0
			for _, x := range xs {
				sum += x
			}
			return sum/len(xs) + 1
		}
		perStepUS := 5 + c.PaceUS
		if c.PaceUS > 0 {
			perStepUS += 100 // a sleep is never that short
		}
		for _, tot := range []*int{&c.Total, &c.Back} {
			steps := *tot/avg(c.Reads) + *tot/avg(c.Chunks)
			if cost := steps * perStepUS; cost > 3000000 {
				*tot = int(int64(*tot) * 3000000 / int64(cost))
				if *tot < 1 {
					*tot = 1
				}
			}
		}
		c.CloseAW = rapid.IntRange(0, 2).Draw(t, "closeAfterWrite") == 0
		if c.CloseAW {
			c.Back = 0
		}
		s.Conns = append(s.Conns, c)
	}
	return s
}

var ipv6Once sync.Once
var ipv6OK bool

func hasIPv6() bool {
	ipv6Once.Do(func() {
		ln, err := net.Listen("tcp6", "[::1]:0")
		if err == nil {
			ln.Close()
			ipv6OK = true
		}
	})
	return ipv6OK
}

// streamReader consumes a position-keyed stream through a generated mix of Reader calls.
type streamReader struct {
	base    int
	got     int64
	reads   []int
	ops     []int
	i       int
	bad     string
	pace    int
	blocked bool // may use blocking calls (a user goroutine) or only what is buffered (a handler)
}

func (sr *streamReader) fail(format string, a ...interface{}) {
	if sr.bad == "" {
		sr.bad = fmt.Sprintf(format, a...)
	}
}

// step performs one read of at most `limit` bytes (limit<0: whatever the script says); returns bytes consumed.
func (sr *streamReader) step(conn Connection, limit int) (int, error) {
	n := sr.reads[sr.i%len(sr.reads)]
	op := sr.ops[sr.i%len(sr.ops)]
	sr.i++
	if limit >= 0 && n > limit {
		n = limit
	}
	if n <= 0 {
		return 0, nil
	}
	off := sr.base + int(atomic.LoadInt64(&sr.got))
	var p []byte
	var err error
	rd := conn.Reader()
	switch op {
	case 0:
		p, err = rd.Next(n)
	case 1:
		p, err = rd.Peek(n)
		if err == nil {
			p = append([]byte(nil), p...)
			err = rd.Skip(n)
		}
	case 2:
		p, err = rd.ReadBinary(n)
	case 3:
		var sl Reader
		sl, err = rd.Slice(n)
		if err == nil {
			p, err = sl.Next(n)
			p = append([]byte(nil), p...)
			sl.Release()
		}
	case 4:
		buf := make([]byte, n)
		var k int
		k, err = conn.Read(buf)
		p = buf[:k]
		n = k
	case 5:
		var s string
		s, err = rd.ReadString(n)
		p = []byte(s)
	case 6:
		// the way a frame parser reads: look at the header, take the tag byte, look at the rest, consume it
		var hd []byte
		hd, err = rd.Peek(n)
		if err == nil {
			hd = append([]byte(nil), hd...)
			var b byte
			if b, err = rd.ReadByte(); err == nil {
				p = append(p, b)
				if n > 1 {
					var rest []byte
					if rest, err = rd.Peek(n - 1); err == nil {
						p = append(p, rest...)
						err = rd.Skip(n - 1)
					}
				}
				if err == nil && string(hd) != string(p) {
					sr.fail("read op 6: Peek(%d) and ReadByte+Peek(%d) disagree at stream offset %d", n, n-1, off-sr.base)
				}
			}
		}
	case 7:
		if n > 64 {
			n = 64
		}
		for k := 0; k < n && err == nil; k++ {
			var b byte
			if b, err = rd.ReadByte(); err == nil {
				p = append(p, b)
			}
		}
	}
	if err != nil {
		return 0, err
	}
	if len(p) != n {
		sr.fail("read op %d asked %d bytes, got %d at stream offset %d", op, n, len(p), off-sr.base)
	} else if d := firstDiff(p, keyedBytes(off, n)); d >= 0 {
		sr.fail("read op %d: byte %d of the stream differs (asked %d at offset %d)", op, off-sr.base+d, n, off-sr.base)
	}
	rd.Release()
	atomic.AddInt64(&sr.got, int64(n))
	if sr.pace > 0 {
		time.Sleep(time.Duration(sr.pace) * time.Microsecond)
	}
	return n, nil
}

func writeStream(conn Connection, base, total int, chunks, apis []int) error {
	w := conn.Writer()
	sent := 0
	for i := 0; sent < total; i++ {
		k := chunks[i%len(chunks)]
		if k > total-sent {
			k = total - sent
		}
		data := keyedBytes(base+sent, k)
		var err error
		switch apis[i%len(apis)] {
		case 1:
			_, err = conn.Write(data)
		case 2:
			if _, err = w.WriteBinary(data); err == nil {
				err = w.Flush()
			}
		case 3:
			if _, err = w.WriteString(string(data)); err == nil {
				err = w.Flush()
			}
		case 4:
			h := k / 2
			var p []byte
			if p, err = w.Malloc(h); err == nil {
				copy(p, data[:h])
				if err = w.WriteByte(data[h]); err == nil {
					if k-h-1 > 0 {
						_, err = w.WriteBinary(data[h+1:])
					}
					if err == nil {
						err = w.Flush()
					}
				}
			}
		case 5:
			// many zero-copy pieces, one Flush (more nodes than the iovec barrier holds when k is large)
			for off := 0; off < k && err == nil; off += 4097 {
				end := off + 4097
				if end > k {
					end = k
				}
				_, err = w.WriteBinary(data[off:end:end])
			}
			if err == nil {
				err = w.Flush()
			}
		case 6:
			// a buffer built elsewhere, handed over with Append (what mux.ShardQueue does)
			lb := NewLinkBuffer(k)
			p, _ := lb.Malloc(k)
			copy(p, data)
			lb.Flush()
			if err = w.Append(lb); err == nil {
				err = w.Flush()
			}
		case 7:
			// reserve more than needed, give the rest back
			var p []byte
			if p, err = w.Malloc(k + 1 + k/3); err == nil {
				copy(p, data)
				if err = w.MallocAck(k); err == nil {
					err = w.Flush()
				}
			}
		default:
			var p []byte
			if p, err = w.Malloc(k); err == nil {
				copy(p, data)
				err = w.Flush()
			}
		}
		if err != nil {
			return fmt.Errorf("write %d (api %d, %d bytes at offset %d): %w", i, apis[i%len(apis)], k, sent, err)
		}
		sent += k
	}
	return nil
}

const (
	liveUpBase   = 0
	liveBackBase = 1 << 28
)

// runLive executes one bulk scenario; returns a failure description or "".
func runLive(s liveScn) (sig, msg string) {
	e3Init()
	if s.BufSize > 0 {
		// what Configure(Config{BufferSize: n}) does; restored for the next case
		old := defaultLinkBufferSize
		defaultLinkBufferSize = s.BufSize
		defer func() { defaultLinkBufferSize = old }()
	}
	ln, addr, err := e3Listen(s.Network)
	if err != nil {
		return "", "" // cannot listen here (e.g. no IPv6): not a verdict
	}
	type srvState struct {
		idx    int
		sr     *streamReader
		eof    int32
		backOK int32
		closed int32 // the server connection's close callbacks have run: nothing more will be offered
		werr   atomic.Value
	}
	var mu sync.Mutex
	states := map[Connection]*srvState{}
	byIdx := make([]*srvState, len(s.Conns))
	var accepted int32
	onRequest := func(ctx context.Context, conn Connection) error {
		mu.Lock()
		st := states[conn]
		mu.Unlock()
		if st == nil {
			// first bytes: 4-byte connection index
			if conn.Reader().Len() < 4 {
				// not enough yet: consume nothing; the next delivery re-invokes the handler
				time.Sleep(50 * time.Microsecond)
				return nil
			}
			p, _ := conn.Reader().Next(4)
			idx := int(p[0]) | int(p[1])<<8
			conn.Reader().Release()
			c := s.Conns[idx]
			st = &srvState{idx: idx, sr: &streamReader{base: liveUpBase + idx*(16<<20), reads: c.Reads, ops: c.ReadOps, pace: c.PaceUS}}
			mu.Lock()
			states[conn] = st
			byIdx[idx] = st
			mu.Unlock()
			atomic.AddInt32(&accepted, 1)
			stc := st
			conn.AddCloseCallback(func(Connection) error { atomic.StoreInt32(&stc.closed, 1); return nil })
			if c.Back > 0 {
				go func() {
					if err := writeStream(conn, liveBackBase+idx*(16<<20), c.Back, c.Chunks, c.APIs); err != nil {
						st.werr.Store(err.Error())
					}
					atomic.StoreInt32(&st.backOK, 1)
				}()
			} else {
				atomic.StoreInt32(&st.backOK, 1)
			}
		}
		for conn.Reader().Len() > 0 {
			if _, err := st.sr.step(conn, conn.Reader().Len()); err != nil {
				st.sr.fail("server read failed with %v at offset %d", err, st.sr.got)
				conn.Reader().Skip(conn.Reader().Len())
				break
			}
			if s.Conns[st.idx].OneStep {
				break // one frame per call: whatever is left must be offered again
			}
		}
		return nil
	}
	evl, _ := NewEventLoop(onRequest)
	served := make(chan error, 1)
	go func() { served <- evl.Serve(ln) }()
	defer func() {
		ctx, cancel := context.WithTimeout(context.Background(), 3*time.Second)
		evl.Shutdown(ctx)
		cancel()
		if s.Network == "unix" {
			os.Remove(addr)
		}
	}()

	type cliState struct {
		conn  Connection
		sr    *streamReader
		werr  error
		rerr  error
		wdone int32
		rdone int32
	}
	clis := make([]*cliState, len(s.Conns))
	for i, c := range s.Conns {
		conn, err := DialConnection(s.Network, addr, 5*time.Second)
		if err != nil {
			return "dial", fmt.Sprintf("dial %s %s: %v", s.Network, addr, err)
		}
		if c.SndBuf > 0 {
			setSndBuf(conn.(Conn).Fd(), c.SndBuf)
		}
		if c.RcvBuf > 0 {
			setRcvBuf(conn.(Conn).Fd(), c.RcvBuf)
		}
		cs := &cliState{conn: conn, sr: &streamReader{base: liveBackBase + i*(16<<20), reads: c.Reads, ops: c.ReadOps, pace: c.PaceUS}}
		clis[i] = cs
		i, c := i, c
		go func() {
			hdr := []byte{byte(i), byte(i >> 8), 0, 0}
			if _, err := conn.Write(hdr); err != nil {
				cs.werr = err
			} else {
				cs.werr = writeStream(conn, liveUpBase+i*(16<<20), c.Total, c.Chunks, c.APIs)
				if cs.werr == nil && c.CloseAW {
					conn.Close() // everything flushed before this Close must still be offered to the server's handler
				}
			}
			atomic.StoreInt32(&cs.wdone, 1)
		}()
		go func() {
			for int(atomic.LoadInt64(&cs.sr.got)) < c.Back {
				if _, err := cs.sr.step(conn, c.Back-int(atomic.LoadInt64(&cs.sr.got))); err != nil {
					cs.rerr = err
					break
				}
			}
			atomic.StoreInt32(&cs.rdone, 1)
		}()
	}
	progress := func() int64 {
		var p int64
		for _, cs := range clis {
			p += atomic.LoadInt64(&cs.sr.got) + int64(atomic.LoadInt32(&cs.wdone)) + int64(atomic.LoadInt32(&cs.rdone))
		}
		mu.Lock()
		for _, st := range byIdx {
			if st != nil {
				p += atomic.LoadInt64(&st.sr.got) + int64(atomic.LoadInt32(&st.backOK))
			}
		}
		mu.Unlock()
		return p + int64(atomic.LoadInt32(&accepted))
	}
	done := func() bool {
		for i, cs := range clis {
			if atomic.LoadInt32(&cs.wdone) == 0 || atomic.LoadInt32(&cs.rdone) == 0 {
				return false
			}
			mu.Lock()
			st := byIdx[i]
			mu.Unlock()
			if cs.werr == nil && st != nil && atomic.LoadInt32(&st.closed) == 1 && int(atomic.LoadInt64(&st.sr.got)) < s.Conns[i].Total {
				continue // terminal: reported below as data lost before end-of-stream
			}
			if cs.werr == nil && (st == nil || int(atomic.LoadInt64(&st.sr.got)) < s.Conns[i].Total || atomic.LoadInt32(&st.backOK) == 0) {
				return false
			}
		}
		return true
	}
	if !waitProgress(done, progress) {
		return "stall", fmt.Sprintf("no byte of progress for %v: delivery stopped (progress %d)\n%s", e3StallBound, progress(), goroutineDump())
	}
	for i, cs := range clis {
		c := s.Conns[i]
		if cs.werr != nil {
			return "write-error", fmt.Sprintf("conn %d: client write failed: %v", i, cs.werr)
		}
		if cs.rerr != nil {
			return "read-error", fmt.Sprintf("conn %d: client read failed after %d of %d bytes: %v", i, cs.sr.got, c.Back, cs.rerr)
		}
		if cs.sr.bad != "" {
			return "client-stream", fmt.Sprintf("conn %d (server->client): %s", i, cs.sr.bad)
		}
		st := byIdx[i]
		if st.sr.bad != "" {
			return "server-stream", fmt.Sprintf("conn %d (client->server): %s", i, st.sr.bad)
		}
		if atomic.LoadInt32(&st.closed) == 1 && int(atomic.LoadInt64(&st.sr.got)) < c.Total {
			return "data-lost-before-eof", fmt.Sprintf("conn %d: the client flushed %d bytes and then closed; the server's close callbacks ran after its handler had been offered only %d of them (one read step per call: %v)", i, c.Total, st.sr.got, c.OneStep)
		}
		if e, _ := st.werr.Load().(string); e != "" {
			return "server-write-error", fmt.Sprintf("conn %d: server write failed: %s", i, e)
		}
		if int(st.sr.got) != c.Total || int(cs.sr.got) != c.Back {
			return "count", fmt.Sprintf("conn %d: server got %d of %d, client got %d of %d", i, st.sr.got, c.Total, cs.sr.got, c.Back)
		}
	}
	// data-before-EOF: the clients close; the servers must not have lost anything (already counted) and see EOF
	for _, cs := range clis {
		cs.conn.Close()
	}
	return "", ""
}

func liveNontrivial(s liveScn) bool {
	for _, c := range s.Conns {
		snd := c.SndBuf
		if snd == 0 {
			snd = 200000
		}
		if c.Total >= 4*snd || c.Back >= 4*snd || c.Total > 65536 {
			return true
		}
	}
	return false
}

func liveTest(t *testing.T, prop, slot string, checks func() int) {
	st := newStats(prop)
	defer st.write()
	if vReplay != "" {
		var rec struct {
			Scenario liveScn `json:"scenario"`
		}
		if err := vLoadReplay(&rec); err != nil {
			t.Fatalf("replay: %v", err)
		}
		st.eval()
		for i := 0; i < 20; i++ {
			if sig, msg := runLive(rec.Scenario); sig != "" {
				vReport(vViolation{Property: prop, Slot: "replay:" + prop, Signature: sig, Message: msg, Replay: map[string]interface{}{"scenario": rec.Scenario}})
				t.Fatalf("%s violated [%s] (attempt %d): %s", prop, sig, i+1, msg)
			}
		}
		return
	}
	big := vTier == "thorough"
	rapid.Check(t, func(t *rapid.T) {
		s := genLiveScn(t, big)
		sig, msg := runLive(s)
		st.eval()
		if sig != "" {
			// a failure under real threads may not reproduce every time: state the rate
			fails, tries := 1, 10
			if sig == "stall" {
				tries = 2 // every stalled run costs the full no-progress bound
			}
			for i := 1; i < tries; i++ {
				if s2, _ := runLive(s); s2 != "" {
					fails++
				}
			}
			msg = fmt.Sprintf("%s (reproduced %d/%d times)", msg, fails, tries)
			vReport(vViolation{Property: prop, Slot: slot, Signature: sig, Message: msg, Replay: map[string]interface{}{"scenario": s}})
			t.Fatalf("%s violated [%s]: %s", prop, sig, msg)
		}
		st.class("net-" + s.Network)
		if liveNontrivial(s) {
			st.class("nontrivial")
			if st.nontrivial(fmt.Sprintf("%+v", s)) {
				st.sample(s)
			}
		}
	})
}

func TestVerifC04Live(t *testing.T) { liveTest(t, "C04", "rapid:C04live", nil) }

var _ = syscall.SOL_SOCKET

// ------------------------------------------------------------------ C13, Shutdown half (E3)

type shutScn struct {
	Network    string `json:"network"`
	Idle       int    `json:"idle"`             // connected, one request served, then idle
	Fresh      int    `json:"fresh"`            // connected, never sent anything
	Busy       int    `json:"busy"`             // request in progress (handler blocked until released)
	Closing    int    `json:"closing"`          // clients that close right around Shutdown
	Late       int    `json:"late,omitempty"`   // clients that connect while Shutdown is running
	Stream     int    `json:"stream,omitempty"` // the handler has returned, a server goroutine is sending a response larger than the socket takes; the client reads it when the busy handlers are released
	DeadlineMS int    `json:"deadline_ms"`      // Shutdown context deadline
	ReleaseMS  int    `json:"release_ms"`       // busy handlers are released this long after Shutdown started (<0: only after Shutdown returned)
}

const shutStreamBase = 1 << 29

func shutStreamSize(network string) int {
	if network == "unix" {
		return 2 << 20
	}
	return 12 << 20
}

func runShutdown(s shutScn) (sig, msg string) {
	e3Init()
	ln, addr, err := e3Listen(s.Network)
	if err != nil {
		return "", ""
	}
	release := make(chan struct{})
	var inBusy, served, streamDone int32
	var busyDoneAt int64 // when the last busy handler returned (wall clock, as measured - not as planned)
	var streamErr atomic.Value
	var mu sync.Mutex
	var conns []Connection
	onRequest := func(ctx context.Context, conn Connection) error {
		rd := conn.Reader()
		n := rd.Len()
		p, _ := rd.Next(n)
		busy := n > 0 && p[0] == 'B'
		stream := n > 0 && p[0] == 'S'
		rd.Release()
		if stream {
			// answer asynchronously: the handler task is over while the response is still going out
			go func() {
				_, err := conn.Write(keyedBytes(shutStreamBase, shutStreamSize(s.Network)))
				if err != nil {
					streamErr.Store(err.Error())
				}
				atomic.AddInt32(&streamDone, 1)
			}()
			atomic.AddInt32(&served, 1)
			return nil
		}
		if busy {
			atomic.AddInt32(&inBusy, 1)
			<-release
			if w, err := conn.Writer().Malloc(4); err == nil {
				copy(w, "done")
				conn.Writer().Flush()
			}
			if atomic.AddInt32(&inBusy, -1) == 0 {
				atomic.StoreInt64(&busyDoneAt, time.Now().UnixNano())
			}
		} else {
			if w, err := conn.Writer().Malloc(2); err == nil {
				copy(w, "ok")
				conn.Writer().Flush()
			}
		}
		atomic.AddInt32(&served, 1)
		return nil
	}
	evl, _ := NewEventLoop(onRequest, WithOnPrepare(func(conn Connection) context.Context {
		mu.Lock()
		conns = append(conns, conn)
		mu.Unlock()
		return context.Background()
	}))
	served0 := make(chan error, 1)
	go func() { served0 <- evl.Serve(ln) }()
	if s.Network == "unix" {
		defer os.Remove(addr)
	}
	var relOnce sync.Once
	var streams []net.Conn
	streamGot := make([]int64, s.Stream)
	streamBad := make([]int32, s.Stream)
	var streamWG sync.WaitGroup
	doRelease := func() {
		relOnce.Do(func() {
			close(release)
			// the clients of the streaming connections start reading now
			for i := range streams {
				i := i
				streamWG.Add(1)
				go func() {
					defer streamWG.Done()
					buf := make([]byte, 65536)
					for {
						streams[i].SetReadDeadline(time.Now().Add(e3StallBound))
						n, err := streams[i].Read(buf)
						if n > 0 {
							off := int(atomic.LoadInt64(&streamGot[i]))
							if firstDiff(buf[:n], keyedBytes(shutStreamBase+off, n)) >= 0 {
								atomic.StoreInt32(&streamBad[i], 1)
							}
							atomic.AddInt64(&streamGot[i], int64(n))
						}
						if err != nil || int(atomic.LoadInt64(&streamGot[i])) >= shutStreamSize(s.Network) {
							return
						}
					}
				}()
			}
		})
	}
	defer doRelease()

	dial := func() (net.Conn, error) {
		nw := "tcp"
		if s.Network == "unix" {
			nw = "unix"
		}
		return net.DialTimeout(nw, addr, 5*time.Second)
	}
	var idle, fresh, busy, closing []net.Conn
	closeAll := func() {
		for _, l := range [][]net.Conn{idle, fresh, busy, closing, streams} {
			for _, c := range l {
				c.Close()
			}
		}
	}
	defer closeAll()
	for i := 0; i < s.Idle; i++ {
		c, err := dial()
		if err != nil {
			return "dial", err.Error()
		}
		idle = append(idle, c)
		c.Write([]byte("I"))
		buf := make([]byte, 2)
		c.SetReadDeadline(time.Now().Add(10 * time.Second))
		if _, err := io.ReadFull(c, buf); err != nil {
			return "idle-request", fmt.Sprintf("idle client %d got no answer: %v", i, err)
		}
	}
	for i := 0; i < s.Fresh; i++ {
		c, err := dial()
		if err != nil {
			return "dial", err.Error()
		}
		fresh = append(fresh, c)
	}
	for i := 0; i < s.Busy; i++ {
		c, err := dial()
		if err != nil {
			return "dial", err.Error()
		}
		busy = append(busy, c)
		c.Write([]byte("B"))
	}
	for i := 0; i < s.Closing; i++ {
		c, err := dial()
		if err != nil {
			return "dial", err.Error()
		}
		closing = append(closing, c)
	}
	for i := 0; i < s.Stream; i++ {
		c, err := dial()
		if err != nil {
			return "dial", err.Error()
		}
		streams = append(streams, c)
		c.Write([]byte("S"))
	}
	// a streaming connection is "in flight" when its handler task is over and its writer waits with output pending
	streaming := func() int {
		mu.Lock()
		defer mu.Unlock()
		k := 0
		for _, c := range conns {
			if cc, ok := c.(*connection); ok && cc.isUnlock(processing) && !cc.outputBuffer.IsEmpty() {
				k++
			}
		}
		return k
	}
	total := s.Idle + s.Fresh + s.Busy + s.Closing + s.Stream
	if !waitProgress(func() bool {
		if streaming() < s.Stream {
			return false
		}
		mu.Lock()
		defer mu.Unlock()
		return len(conns) >= total && int(atomic.LoadInt32(&inBusy)) >= s.Busy
	}, func() int64 {
		mu.Lock()
		defer mu.Unlock()
		return int64(len(conns)) + int64(atomic.LoadInt32(&inBusy))
	}) {
		return "accept-stall", fmt.Sprintf("only %d of %d connections were accepted\n%s", len(conns), total, goroutineDump())
	}
	// idle connections must really be idle before Shutdown looks at them
	time.Sleep(2 * time.Millisecond)
	go func() {
		for _, c := range closing {
			c.Close()
		}
	}()
	if s.ReleaseMS >= 0 {
		go func() {
			time.Sleep(time.Duration(s.ReleaseMS) * time.Millisecond)
			doRelease()
		}()
	}
	t0 := time.Now() // before the context is made: the time measured is never shorter than the context's own
	ctx, cancel := context.WithTimeout(context.Background(), time.Duration(s.DeadlineMS)*time.Millisecond)
	defer cancel()
	resc := make(chan error, 1)
	var lateMu sync.Mutex
	var late []net.Conn
	var lateWG sync.WaitGroup
	for i := 0; i < s.Late; i++ {
		lateWG.Add(1)
		go func() {
			defer lateWG.Done()
			if c, err := dial(); err == nil {
				lateMu.Lock()
				late = append(late, c)
				lateMu.Unlock()
			}
		}()
	}
	defer func() {
		lateWG.Wait()
		for _, c := range late {
			c.Close()
		}
	}()
	go func() { resc <- evl.Shutdown(ctx) }()
	var serr error
	select {
	case serr = <-resc:
	case <-time.After(time.Duration(s.DeadlineMS)*time.Millisecond + 20*time.Second):
		return "shutdown-hang", fmt.Sprintf("Shutdown did not return within its %d ms deadline + 20 s\n%s", s.DeadlineMS, goroutineDump())
	}
	took := time.Since(t0)
	// Serve returns once Shutdown was called
	select {
	case <-served0:
	case <-time.After(10 * time.Second):
		return "serve-not-returned", "Serve did not return after Shutdown"
	}
	busyAtEnd := s.Busy+s.Stream > 0 && (s.ReleaseMS < 0 || s.ReleaseMS > s.DeadlineMS+200)
	busyEarly := s.Stream == 0 && (s.Busy == 0 || (s.ReleaseMS >= 0 && s.ReleaseMS+300 < s.DeadlineMS))
	mu.Lock()
	all := append([]Connection(nil), conns...)
	mu.Unlock()
	if serr == nil {
		// nil: no tracked connection remains and every server-side connection is closed
		if busyAtEnd {
			return "nil-with-busy", fmt.Sprintf("Shutdown returned nil after %v although %d handlers were still running and %d responses were still in flight (unread by their clients)", took, atomic.LoadInt32(&inBusy), s.Stream)
		}
		left := 0
		evlImpl := evl.(*eventLoop)
		_ = evlImpl
		for _, c := range all {
			if c.IsActive() {
				left++
			}
		}
		if left > 0 {
			return "nil-with-active", fmt.Sprintf("Shutdown returned nil but %d server-side connections are still active", left)
		}
	} else {
		if serr != ctx.Err() {
			return "shutdown-error", fmt.Sprintf("Shutdown returned %v, want the context's error %v", serr, ctx.Err())
		}
		// judged by when the handlers really finished, not by when they were asked to: on a loaded machine the
		// release itself can be late
		if done := atomic.LoadInt64(&busyDoneAt); busyEarly && s.Busy > 0 {
			busyEarly = done != 0 && t0.Add(time.Duration(s.DeadlineMS)*time.Millisecond).Sub(time.Unix(0, done)) > 300*time.Millisecond
		}
		if busyEarly {
			return "deadline-without-busy", fmt.Sprintf("Shutdown hit its %d ms deadline (took %v) although no handler was busy that long (busy=%d release=%d ms)", s.DeadlineMS, took, s.Busy, s.ReleaseMS)
		}
		if took < time.Duration(s.DeadlineMS)*time.Millisecond-5*time.Millisecond {
			return "deadline-early", fmt.Sprintf("Shutdown returned the context error after %v, before its %d ms deadline", took, s.DeadlineMS)
		}
		// busy connections keep working: release them and the answer still arrives
		doRelease()
		for i, c := range busy {
			buf := make([]byte, 4)
			c.SetReadDeadline(time.Now().Add(10 * time.Second))
			if _, err := io.ReadFull(c, buf); err != nil || string(buf) != "done" {
				return "busy-disturbed", fmt.Sprintf("busy connection %d did not get its answer after Shutdown's deadline passed: %q %v", i, buf, err)
			}
		}
	}
	// a response in flight at Shutdown is completed: the connection was busy, whatever Shutdown returned
	if s.Stream > 0 {
		doRelease()
		streamWG.Wait()
		for i := range streams {
			if got := int(atomic.LoadInt64(&streamGot[i])); got != shutStreamSize(s.Network) || atomic.LoadInt32(&streamBad[i]) != 0 {
				e, _ := streamErr.Load().(string)
				return "busy-disturbed", fmt.Sprintf("streaming connection %d: the client received %d of %d response bytes (corrupt: %v) that were in flight when Shutdown ran; server Write error: %q; Shutdown returned %v after %v", i, got, shutStreamSize(s.Network), atomic.LoadInt32(&streamBad[i]) != 0, e, serr, took)
			}
		}
		// (the server-side Write may report ErrConnClosed although every byte arrived: Shutdown may find the
		// connection idle - output buffer just emptied by the poller - before the writer has been woken)
	}
	// idle connections were closed by Shutdown (the client sees EOF), whatever Shutdown returned;
	// so were the ones that slipped in while it was running
	lateWG.Wait()
	mustBeClosed := append(append([]net.Conn(nil), idle...), fresh...)
	if serr == nil {
		// nil: no connection remains, whenever it was accepted. When Shutdown gives up at its deadline, a
		// connection whose accept was still in flight at that moment may be left (the caller has been told
		// that the shutdown is incomplete). A late client counts only when it was this server that accepted
		// it: its connect may have completed after the listener was gone, on a port that somebody else on this
		// machine (the other shards run the same workloads) had been given in the meantime.
		mu.Lock()
		ours := map[string]bool{}
		for _, sc := range conns {
			if ra := sc.RemoteAddr(); ra != nil {
				ours[ra.String()] = true
			}
		}
		mu.Unlock()
		for _, c := range late {
			if ours[c.LocalAddr().String()] {
				mustBeClosed = append(mustBeClosed, c)
			}
		}
	}
	for i, c := range mustBeClosed {
		c.SetReadDeadline(time.Now().Add(10 * time.Second))
		if _, err := c.Read(make([]byte, 1)); err == nil {
			return "idle-not-closed", fmt.Sprintf("idle connection %d is still open after Shutdown", i)
		} else if ne, ok := err.(net.Error); ok && ne.Timeout() {
			return "idle-not-closed", fmt.Sprintf("idle connection %d was not closed by Shutdown", i)
		}
	}
	// accepting has stopped: a connection made now does not reach this server's callbacks
	mu.Lock()
	before := len(conns)
	mu.Unlock()
	if c, err := dial(); err == nil {
		c.SetReadDeadline(time.Now().Add(300 * time.Millisecond))
		c.Read(make([]byte, 1))
		c.Close()
		mu.Lock()
		after := len(conns)
		mu.Unlock()
		if after > before {
			return "still-accepting", "a client that connected after Shutdown had returned was accepted by the server (OnPrepare ran)"
		}
	}
	return "", ""
}

// ---- descriptor exhaustion: accept fails with EMFILE for a generated stretch

type emfileListener struct {
	Listener
	on *int32
	n  *int32
}

func (l *emfileListener) Accept() (net.Conn, error) {
	if atomic.LoadInt32(l.on) != 0 {
		atomic.AddInt32(l.n, 1)
		return nil, syscall.EMFILE
	}
	return l.Listener.Accept()
}

type emfileScn struct {
	Network   string `json:"network"`
	StretchMS int    `json:"emfile_ms"`
	Before    int    `json:"before"` // clients served before the stretch
	During    int    `json:"during"` // clients connecting while accept fails (they wait in the kernel's accept queue)
	// ShutdownDuring: Shutdown is called while accept is still failing; afterwards nothing of the server may
	// touch the listener's descriptor number any more (a new listener of the application gets that number)
	ShutdownDuring bool `json:"shutdown_during,omitempty"`
}

func runEmfile(s emfileScn) (sig, msg string) {
	e3Init()
	nl, addr, err := e3Listen(s.Network)
	if err != nil {
		return "", ""
	}
	base, err := ConvertListener(nl)
	if err != nil {
		return "", ""
	}
	var on, fails int32
	ln := &emfileListener{Listener: base, on: &on, n: &fails}
	evl, _ := NewEventLoop(func(ctx context.Context, conn Connection) error {
		n := conn.Reader().Len()
		p, _ := conn.Reader().Next(n)
		w, err := conn.Writer().Malloc(n)
		if err == nil {
			copy(w, p)
			conn.Writer().Flush()
		}
		conn.Reader().Release()
		return nil
	})
	done := make(chan error, 1)
	go func() { done <- evl.Serve(ln) }()
	if s.Network == "unix" {
		defer os.Remove(addr)
	}
	nw := "tcp"
	if s.Network == "unix" {
		nw = "unix"
	}
	echo := func(c net.Conn, tag string) string {
		c.SetDeadline(time.Now().Add(8 * time.Second))
		if _, err := c.Write([]byte(tag)); err != nil {
			return err.Error()
		}
		buf := make([]byte, len(tag))
		if _, err := io.ReadFull(c, buf); err != nil || string(buf) != tag {
			return fmt.Sprintf("echo of %q failed: %q %v", tag, buf, err)
		}
		return ""
	}
	var all []net.Conn
	defer func() {
		for _, c := range all {
			c.Close()
		}
	}()
	for i := 0; i < s.Before; i++ {
		c, err := net.DialTimeout(nw, addr, 5*time.Second)
		if err != nil {
			return "dial", err.Error()
		}
		all = append(all, c)
		if e := echo(c, fmt.Sprintf("before%d", i)); e != "" {
			return "before-stretch", e
		}
	}
	atomic.StoreInt32(&on, 1)
	var during []net.Conn
	for i := 0; i < s.During; i++ {
		c, err := net.DialTimeout(nw, addr, 5*time.Second)
		if err != nil {
			return "dial", err.Error()
		}
		all = append(all, c)
		during = append(during, c)
	}
	if s.ShutdownDuring {
		time.Sleep(time.Duration(s.StretchMS/2) * time.Millisecond)
		for _, c := range all {
			c.Close()
		}
		all = nil
		ctx, cancel := context.WithTimeout(context.Background(), 5*time.Second)
		defer cancel()
		if err := evl.Shutdown(ctx); err != nil {
			return "shutdown-during-emfile", fmt.Sprintf("Shutdown during the EMFILE stretch returned %v", err)
		}
		select {
		case <-done:
		case <-time.After(5 * time.Second):
			return "serve-not-returned", "Serve did not return after Shutdown"
		}
		atomic.StoreInt32(&on, 0)
		// the application opens a listener of its own: it gets the lowest free descriptor number, usually the
		// one the closed server's listener had. Its clients wait in its accept queue; nobody but the
		// application may take them out.
		// (two listeners: the closed server's listener had two descriptors, its own and the wrapped one)
		var lns []net.Listener
		var addrs []string
		var cs []net.Conn
		defer func() {
			for _, c := range cs {
				c.Close()
			}
			for _, l := range lns {
				l.Close()
			}
		}()
		for k := 0; k < 2; k++ {
			l2, a2, err := e3Listen(s.Network)
			if err != nil {
				return "", ""
			}
			lns = append(lns, l2)
			addrs = append(addrs, a2)
			if s.Network == "unix" {
				defer os.Remove(a2)
			}
		}
		for _, a2 := range addrs {
			for i := 0; i < 3; i++ {
				if c, err := net.DialTimeout(nw, a2, 5*time.Second); err == nil {
					cs = append(cs, c)
				}
			}
		}
		time.Sleep(2500 * time.Millisecond) // the re-accept goroutine backs off for at most 1 s
		got := 0
		for _, l2 := range lns {
			for i := 0; i < 3; i++ {
				if dl, ok := l2.(interface{ SetDeadline(time.Time) error }); ok {
					dl.SetDeadline(time.Now().Add(2 * time.Second))
				}
				c, err := l2.Accept()
				if err != nil {
					break
				}
				got++
				c.Close()
			}
		}
		if got != len(cs) {
			return "accepts-after-shutdown", fmt.Sprintf("after Shutdown (called while accept was failing with EMFILE) the application opened a listener of its own; %d clients connected to it, it could accept only %d: somebody else is still calling accept on its descriptor number", len(cs), got)
		}
		return "", ""
	}
	time.Sleep(time.Duration(s.StretchMS) * time.Millisecond)
	atomic.StoreInt32(&on, 0)
	// accepting resumes: the queued clients and a new one are served (the back-off is at most 1 s per retry)
	for i, c := range during {
		if e := echo(c, fmt.Sprintf("during%d", i)); e != "" {
			return "not-resumed", fmt.Sprintf("client %d that connected while accept failed with EMFILE (%d ms, %d failed accepts) was not served afterwards: %s", i, s.StretchMS, atomic.LoadInt32(&fails), e)
		}
	}
	c, err := net.DialTimeout(nw, addr, 5*time.Second)
	if err != nil {
		return "not-resumed", "dial after the stretch: " + err.Error()
	}
	all = append(all, c)
	if e := echo(c, "after"); e != "" {
		return "not-resumed", fmt.Sprintf("a client connecting after the EMFILE stretch (%d ms) was not served: %s", s.StretchMS, e)
	}
	for _, c := range all {
		c.Close()
	}
	all = nil
	ctx, cancel := context.WithTimeout(context.Background(), 5*time.Second)
	defer cancel()
	if err := evl.Shutdown(ctx); err != nil {
		return "shutdown-after-emfile", fmt.Sprintf("Shutdown after the stretch returned %v", err)
	}
	select {
	case <-done:
	case <-time.After(5 * time.Second):
		return "serve-not-returned", "Serve did not return after Shutdown"
	}
	return "", ""
}

func vJournal(v interface{}) {
	b, _ := json.Marshal(v)
	os.WriteFile(filepath.Join(vOutDir, "current_case.json"), b, 0o644)
}

func TestVerifC13Live(t *testing.T) {
	st := newStats("C13")
	defer st.write()
	if vReplay != "" {
		var rec struct {
			Scenario shutScn `json:"scenario"`
		}
		if err := vLoadReplay(&rec); err != nil {
			t.Fatalf("replay: %v", err)
		}
		var erec struct {
			Scenario emfileScn `json:"scenario"`
		}
		if vLoadReplay(&erec) == nil && erec.Scenario.StretchMS > 0 {
			st.eval()
			if sig, msg := runEmfile(erec.Scenario); sig != "" {
				vReport(vViolation{Property: "C13", Slot: "replay:C13", Signature: sig, Message: msg, Replay: map[string]interface{}{"scenario": erec.Scenario}})
				t.Fatalf("C13 violated [%s]: %s", sig, msg)
			}
			return
		}
		st.eval()
		for i := 0; i < 10; i++ {
			if sig, msg := runShutdown(rec.Scenario); sig != "" {
				vReport(vViolation{Property: "C13", Slot: "replay:C13", Signature: sig, Message: msg, Replay: map[string]interface{}{"scenario": rec.Scenario}})
				t.Fatalf("C13 violated [%s] (attempt %d): %s", sig, i+1, msg)
			}
		}
		return
	}
	rapid.Check(t, func(t *rapid.T) {
		if rapid.IntRange(0, 2).Draw(t, "emfile") == 0 {
			es := emfileScn{Network: rapid.SampledFrom([]string{"tcp4", "unix"}).Draw(t, "network"), Before: rapid.IntRange(0, 2).Draw(t, "before"), During: rapid.IntRange(1, 3).Draw(t, "during")}
			es.StretchMS = rapid.SampledFrom([]int{20, 150, 700, 2300, 2300}).Draw(t, "stretch")
			es.ShutdownDuring = rapid.IntRange(0, 3).Draw(t, "shutdownDuring") == 0
			vJournal(map[string]interface{}{"scenario": es})
			sig, msg := runEmfile(es)
			st.eval()
			if sig != "" {
				vReport(vViolation{Property: "C13", Slot: "rapid:C13live", Signature: sig, Message: msg, Replay: map[string]interface{}{"scenario": es, "deadline_ms": 0}})
				t.Fatalf("C13 violated [%s]: %s", sig, msg)
			}
			st.class("emfile-stretch")
			st.class("nontrivial")
			if st.nontrivial(fmt.Sprintf("%+v", es)) {
				st.sample(es)
			}
			return
		}
		s := shutScn{Network: rapid.SampledFrom([]string{"tcp4", "unix"}).Draw(t, "network")}
		s.Idle = rapid.IntRange(0, 4).Draw(t, "idle")
		s.Fresh = rapid.IntRange(0, 2).Draw(t, "fresh")
		s.Busy = rapid.IntRange(0, 3).Draw(t, "busy")
		s.Closing = rapid.IntRange(0, 3).Draw(t, "closing")
		s.Late = rapid.SampledFrom([]int{0, 0, 1, 4, 16}).Draw(t, "late")
		if rapid.IntRange(0, 2).Draw(t, "hasStream") == 0 {
			s.Stream = rapid.IntRange(1, 2).Draw(t, "stream")
		}
		s.DeadlineMS = rapid.SampledFrom([]int{150, 400, 900}).Draw(t, "deadline")
		switch rapid.IntRange(0, 2).Draw(t, "release") {
		case 0:
			s.ReleaseMS = rapid.IntRange(0, 60).Draw(t, "releaseMs")
		case 1:
			s.ReleaseMS = -1
		default:
			s.ReleaseMS = s.DeadlineMS + 400
		}
		sig, msg := runShutdown(s)
		st.eval()
		if sig != "" {
			fails := 1
			for i := 0; i < 4; i++ {
				if s2, _ := runShutdown(s); s2 != "" {
					fails++
				}
			}
			msg = fmt.Sprintf("%s (reproduced %d/5 times)", msg, fails)
			vReport(vViolation{Property: "C13", Slot: "rapid:C13live", Signature: sig, Message: msg, Replay: map[string]interface{}{"scenario": s}})
			t.Fatalf("C13 violated [%s]: %s", sig, msg)
		}
		st.class("net-" + s.Network)
		if s.Stream > 0 {
			st.class("response-in-flight")
		}
		if s.Late > 0 {
			st.class("connects-during-shutdown")
		}
		if (s.Busy+s.Stream > 0 && s.Idle+s.Fresh > 0) || s.Closing > 0 {
			st.class("nontrivial")
			if st.nontrivial(fmt.Sprintf("%+v", s)) {
				st.sample(s)
			}
		}
	})
}

// ------------------------------------------------------------------ C14: dial

type dialScn struct {
	Target    string `json:"target"` // tcp4, tcp6, unix, refused, blackhole, reset
	TimeoutUS int    `json:"timeout_us"`
	N         int    `json:"n"` // concurrent dials
	// Sweep > 0: every dialling goroutine performs that many dials one after the other with timeouts swept
	// from 10% to 200% of timeout_us: some of them expire within microseconds of the connect result
	Sweep int `json:"sweep,omitempty"`
}

// blackhole returns the address of a listener whose accept queue is full: further SYNs are dropped.
func blackhole() (addr string, cleanup func(), ok bool) {
	fd, err := syscall.Socket(syscall.AF_INET, syscall.SOCK_STREAM, 0)
	if err != nil {
		return "", nil, false
	}
	sa := &syscall.SockaddrInet4{Addr: [4]byte{127, 0, 0, 1}}
	if syscall.Bind(fd, sa) != nil || syscall.Listen(fd, 0) != nil {
		syscall.Close(fd)
		return "", nil, false
	}
	lsa, _ := syscall.Getsockname(fd)
	port := lsa.(*syscall.SockaddrInet4).Port
	addr = fmt.Sprintf("127.0.0.1:%d", port)
	// fillers occupy the accept queue (backlog 0 admits one; a second one makes sure)
	var fillers []net.Conn
	for i := 0; i < 2; i++ {
		c, err := net.DialTimeout("tcp4", addr, 300*time.Millisecond)
		if err == nil {
			fillers = append(fillers, c)
		}
	}
	return addr, func() {
		for _, c := range fillers {
			c.Close()
		}
		syscall.Close(fd)
	}, true
}

func slotsInUse() (n int, problem string) {
	for _, p := range pollmanager.polls {
		dp, ok := p.(*defaultPoll)
		if !ok {
			continue
		}
		lock(&dp.opcache.locked)
		lock(&dp.opcache.freelocked)
		k, pr := opCensus(dp)
		unlock(&dp.opcache.freelocked)
		unlock(&dp.opcache.locked)
		n += k
		if pr != "" {
			problem = pr
		}
	}
	return
}

// connIsNil also recognises a nil *TCPConnection / *UnixConnection wrapped in the Connection interface
// (what DialConnection returns next to an error); no reflection: the value may be in use by other goroutines.
func connIsNil(c Connection) bool {
	switch v := c.(type) {
	case nil:
		return true
	case *TCPConnection:
		return v == nil
	case *UnixConnection:
		return v == nil
	case *connection:
		return v == nil
	}
	return false
}

var errSweepClosed = fmt.Errorf("sweep: dial succeeded, connection closed at once")

func runDial(s dialScn) (sig, msg string, timedOut, failed int) {
	e3Init()
	Initialize()
	var addr, network string
	cleanup := func() {}
	switch s.Target {
	case "tcp4", "tcp6", "unix":
		ln, a, err := e3Listen(s.Target)
		if err != nil {
			return "", "", 0, 0
		}
		addr, network = a, s.Target
		if network != "unix" {
			network = "tcp"
		}
		go func() {
			for {
				c, err := ln.Accept()
				if err != nil {
					return
				}
				go func() { io.Copy(c, c); c.Close() }()
			}
		}()
		cleanup = func() {
			ln.Close()
			if s.Target == "unix" {
				os.Remove(a)
			}
		}
	case "reset":
		ln, a, err := e3Listen("tcp4")
		if err != nil {
			return "", "", 0, 0
		}
		addr, network = a, "tcp"
		go func() {
			for {
				c, err := ln.Accept()
				if err != nil {
					return
				}
				c.(*net.TCPConn).SetLinger(0)
				c.Close()
			}
		}()
		cleanup = func() { ln.Close() }
	case "refused":
		ln, a, err := e3Listen("tcp4")
		if err != nil {
			return "", "", 0, 0
		}
		ln.Close()
		addr, network = a, "tcp"
		if s.Sweep >= 1000 {
			// connect(2) hands out even source ports first and bind(0) odd ones: a refusing port that
			// connect can pick as source port itself has to be an even one of the ephemeral range
			for p := 40000 + 2*int(atomic.AddInt64(&e3SockSeq, 1)%5000); p < 60000; p += 2 {
				l2, err := net.Listen("tcp4", fmt.Sprintf("127.0.0.1:%d", p))
				if err == nil {
					l2.Close()
					addr = fmt.Sprintf("127.0.0.1:%d", p)
					break
				}
			}
		}
	case "blackhole":
		a, cl, ok := blackhole()
		if !ok {
			return "", "", 0, 0
		}
		addr, network, cleanup = a, "tcp", cl
	}
	defer cleanup()
	time.Sleep(time.Millisecond)
	socks0 := socketCount()
	slots0, _ := slotsInUse()
	timeout := time.Duration(s.TimeoutUS) * time.Microsecond
	type res struct {
		conn Connection
		err  error
		took time.Duration
	}
	per := 1
	if s.Sweep > 0 {
		per = s.Sweep
	}
	results := make([]res, s.N*per)
	dialsStart := time.Now()
	var wg sync.WaitGroup
	for i := 0; i < s.N; i++ {
		i := i
		wg.Add(1)
		go func() {
			defer wg.Done()
			for j := 0; j < per; j++ {
				to := timeout
				if s.Sweep > 0 {
					to = timeout/10 + time.Duration(int64(timeout)*19/10*int64(j)/int64(per))
				}
				t0 := time.Now()
				c, err := DialConnection(network, addr, to)
				results[i*per+j] = res{c, err, time.Since(t0)}
				if s.Sweep > 0 && err == nil && !connIsNil(c) {
					c.Close()
					results[i*per+j].conn = nil
					results[i*per+j].err = errSweepClosed
				}
			}
		}()
	}
	donec := make(chan struct{})
	go func() { wg.Wait(); close(donec) }()
	select {
	case <-donec:
	case <-time.After(timeout + 30*time.Second):
		return "dial-hang", fmt.Sprintf("a dial with a %v timeout had not returned after %v\n%s", timeout, timeout+30*time.Second, goroutineDump()), 0, 0
	}
	for i, r := range results {
		// the typed-nil trap: a nil *TCPConnection inside the Connection interface counts as nil
		isNil := connIsNil(r.conn)
		switch {
		case !isNil && r.err != nil:
			return "conn-and-error", fmt.Sprintf("dial %d returned both a connection and the error %v", i, r.err), 0, 0
		case isNil && r.err == nil:
			return "neither", fmt.Sprintf("dial %d returned neither a connection nor an error", i), 0, 0
		}
		if r.took > timeout+5*time.Second {
			if late := e3Starved(dialsStart); late > time.Second {
				continue // the process itself was not being run for that long (see e3Heartbeat): no verdict
			}
			return "timeout-ignored", fmt.Sprintf("dial %d took %v with a %v timeout", i, r.took, timeout), 0, 0
		}
		if r.err == errSweepClosed {
			// On the even refusing port of the refused-port sweep a dial can succeed: the kernel picked the
			// destination port as source port (TCP self-connect) three times in a row, and the dialer gives
			// up retrying after two, as package net does. Seen once in 4 x 7 x 12000 dials.
			if (s.Target == "refused" && s.Sweep < 1000) || s.Target == "blackhole" {
				return "impossible-success", fmt.Sprintf("dial %d to a %s target succeeded", i, s.Target), timedOut, failed
			}
			continue // a successful dial of a sweep: closed at once
		}
		if r.err != nil {
			failed++
			ne, isNet := r.err.(net.Error)
			deadline := strings.Contains(r.err.Error(), "timeout") || strings.Contains(r.err.Error(), "deadline")
			if deadline {
				timedOut++
				if !isNet || !ne.Timeout() {
					return "timeout-not-reported", fmt.Sprintf("dial %d timed out after %v (%v) but the error does not report Timeout()", i, r.took, r.err), timedOut, failed
				}
			}
			if s.Target == "blackhole" && !deadline {
				return "blackhole-error", fmt.Sprintf("dial %d to a listener that drops SYNs failed with %v after %v (timeout %v)", i, r.err, r.took, timeout), timedOut, failed
			}
			continue
		}
		if s.Target == "refused" || s.Target == "blackhole" {
			return "impossible-success", fmt.Sprintf("dial %d to a %s target succeeded", i, s.Target), timedOut, failed
		}
		if s.Target == "reset" {
			continue
		}
		// usable in both directions: echo round trip
		c := r.conn
		c.SetReadTimeout(10 * time.Second)
		payload := keyedBytes(i*100, 64)
		if _, err := c.Write(payload); err != nil {
			return "not-usable", fmt.Sprintf("dial %d succeeded but Write failed: %v", i, err), timedOut, failed
		}
		p, err := c.Reader().Next(len(payload))
		if err != nil || string(p) != string(payload) {
			return "not-usable", fmt.Sprintf("dial %d succeeded but the echo did not come back: %d bytes, %v", i, len(p), err), timedOut, failed
		}
		c.Reader().Release()
		if !c.IsActive() {
			return "not-usable", fmt.Sprintf("dial %d returned an inactive connection", i), timedOut, failed
		}
	}
	for _, r := range results {
		if r.err == nil && !connIsNil(r.conn) {
			r.conn.Close()
		}
	}
	// nothing left behind: descriptors and poller slots are back at their baselines
	var socks1, slots1 int
	var prob string
	ok := false
	for i := 0; i < 400; i++ {
		socks1 = socketCount()
		slots1, prob = slotsInUse()
		if socks1 <= socks0 && slots1 <= slots0 && prob == "" {
			ok = true
			break
		}
		time.Sleep(5 * time.Millisecond)
	}
	if !ok {
		if prob != "" {
			return "slot-census", prob, timedOut, failed
		}
		if socks1 > socks0 {
			return "fd-leak", fmt.Sprintf("%d socket descriptors before the dials, %d after all of them failed or were closed (target %s, %d failed)", socks0, socks1, s.Target, failed), timedOut, failed
		}
		return "slot-leak", fmt.Sprintf("%d poller slots in use before the dials, %d afterwards (target %s, %d failed)", slots0, slots1, s.Target, failed), timedOut, failed
	}
	return "", "", timedOut, failed
}

func TestVerifC14(t *testing.T) {
	st := newStats("C14")
	defer st.write()
	if vReplay != "" {
		var rec struct {
			Scenario dialScn `json:"scenario"`
		}
		if err := vLoadReplay(&rec); err != nil {
			t.Fatalf("replay: %v", err)
		}
		st.eval()
		for i := 0; i < 20; i++ {
			if sig, msg, _, _ := runDial(rec.Scenario); sig != "" {
				vReport(vViolation{Property: "C14", Slot: "replay:C14", Signature: sig, Message: msg, Replay: map[string]interface{}{"scenario": rec.Scenario}})
				t.Fatalf("C14 violated [%s] (attempt %d): %s", sig, i+1, msg)
			}
		}
		return
	}
	rapid.Check(t, func(t *rapid.T) {
		s := dialScn{Target: rapid.SampledFrom([]string{"tcp4", "tcp4", "tcp6", "unix", "refused", "blackhole", "blackhole", "reset"}).Draw(t, "target")}
		if s.Target == "tcp6" && !hasIPv6() {
			s.Target = "tcp4"
		}
		s.TimeoutUS = rapid.SampledFrom([]int{50, 100, 200, 500, 1000, 5000, 20000, 100000, 300000}).Draw(t, "timeout")
		s.N = rapid.SampledFrom([]int{1, 1, 2, 8, 32}).Draw(t, "n")
		if s.Target == "refused" && rapid.IntRange(0, 2).Draw(t, "manyRefused") == 0 {
			// thousands of dials to one refusing local port: the kernel's choice of source port sweeps the
			// ephemeral range and now and then picks the destination port itself (TCP self-connect, retried by the dialer)
			s.TimeoutUS, s.N, s.Sweep = 100000, 8, 1500
			st.class("refused-port-sweep")
		} else if s.TimeoutUS <= 1000 && s.Target != "blackhole" && rapid.Bool().Draw(t, "sweep") {
			s.Sweep = rapid.SampledFrom([]int{50, 200, 1000}).Draw(t, "sweepN")
			if s.N > 8 {
				s.N = 8
			}
			st.class("timeout-sweep")
		}
		sig, msg, timedOut, failed := runDial(s)
		st.eval()
		if sig != "" {
			vReport(vViolation{Property: "C14", Slot: "rapid:C14", Signature: sig, Message: msg, Replay: map[string]interface{}{"scenario": s}})
			t.Fatalf("C14 violated [%s]: %s\nscenario %+v", sig, msg, s)
		}
		st.class("target-" + s.Target)
		st.classN("timed-out-dials", int64(timedOut))
		st.classN("failed-dials", int64(failed))
		if failed > 0 {
			st.class("nontrivial")
			if st.nontrivial(fmt.Sprintf("%+v|%d|%d", s, timedOut, failed)) {
				st.sample(map[string]interface{}{"scenario": s, "timed_out": timedOut, "failed": failed})
			}
		}
	})
}

// ------------------------------------------------------------------ C15: descriptor ownership

type fdAudit struct {
	mu      sync.Mutex
	victims map[int]bool
	closed  []int
	bad     []string
	devnull int
	n       int
}

var theAudit *fdAudit

func startAudit() *fdAudit {
	dn, err := syscall.Open("/dev/null", syscall.O_RDONLY, 0)
	if err != nil {
		return nil
	}
	a := &fdAudit{victims: map[int]bool{}, devnull: dn}
	theAudit = a
	vsSetCloseAudit(func(point, fd int) {
		a.mu.Lock()
		defer a.mu.Unlock()
		a.n++
		a.parkLocked()
		switch {
		case a.victims[fd]:
			a.bad = append(a.bad, fmt.Sprintf("netpoll closes descriptor %d a second time: the number had already been closed by netpoll and now belongs to somebody else (%s)", fd, e2PointTable[point]))
		case !fdOpen(fd):
			a.bad = append(a.bad, fmt.Sprintf("netpoll closes descriptor %d which is not open (%s)", fd, e2PointTable[point]))
		default:
			a.closed = append(a.closed, fd)
		}
	})
	return a
}

// parkLocked puts a harness-owned victim on every number whose audited close has meanwhile been executed,
// so that a second close of the number is caught at its own audit instead of depending on reuse luck.
func (a *fdAudit) parkLocked() {
	rest := a.closed[:0]
	for _, n := range a.closed {
		if fdOpen(n) {
			rest = append(rest, n) // not executed yet (or already re-used by netpoll itself)
			continue
		}
		r, _, e := syscall.Syscall(syscall.SYS_FCNTL, uintptr(a.devnull), syscall.F_DUPFD, uintptr(n))
		if e == 0 && int(r) == n {
			a.victims[n] = true
		} else if e == 0 {
			syscall.Close(int(r))
		}
	}
	a.closed = rest
}

func (a *fdAudit) stop() []string {
	vsSetCloseAudit(nil)
	a.mu.Lock()
	defer a.mu.Unlock()
	for n := range a.victims {
		syscall.Close(n)
	}
	syscall.Close(a.devnull)
	theAudit = nil
	return a.bad
}

type fdScn struct {
	Steps []string `json:"steps"`
}

var fdStepKinds = []string{"dial-family", "dial-bindfail", "dial-unix-bindfail", "dial-regfail", "dial-tcp", "dial-unix", "dial-refused", "dial-timeout", "server-tcp", "server-unix", "server-prepare-close", "server-prepare-detach", "fdconn", "detach", "manager", "listener-create", "concurrent-close"}

func censusKinds() map[string]int {
	m := map[string]int{}
	for _, l := range fdCensus() {
		switch {
		case strings.HasPrefix(l, "socket:"):
			m["socket"]++
		case strings.Contains(l, "eventpoll"):
			m["eventpoll"]++
		case strings.Contains(l, "eventfd"):
			m["eventfd"]++
		}
	}
	return m
}

func runFDStep(kind string) (msg string) {
	switch kind {
	case "dial-tcp", "dial-unix":
		nw := "tcp4"
		if kind == "dial-unix" {
			nw = "unix"
		}
		ln, addr, err := e3Listen(nw)
		if err != nil {
			return ""
		}
		go func() {
			for {
				c, err := ln.Accept()
				if err != nil {
					return
				}
				go func() { io.Copy(c, c); c.Close() }()
			}
		}()
		net := "tcp"
		if nw == "unix" {
			net = "unix"
		}
		c, err := DialConnection(net, addr, time.Second)
		if err == nil {
			c.Write([]byte("ping"))
			c.SetReadTimeout(5 * time.Second)
			c.Reader().Next(4)
			c.Reader().Release()
			c.Close()
		}
		ln.Close()
		if nw == "unix" {
			os.Remove(addr)
		}
	case "dial-refused":
		ln, addr, err := e3Listen("tcp4")
		if err != nil {
			return ""
		}
		ln.Close()
		if c, err := DialConnection("tcp", addr, 200*time.Millisecond); err == nil {
			c.Close()
		}
	case "dial-family":
		// tcp4 with an IPv6 remote address: the dial fails while converting the address, after socket()
		ctx, cancel := context.WithTimeout(context.Background(), time.Second)
		if c, err := DialTCP(ctx, "tcp4", nil, &TCPAddr{TCPAddr: net.TCPAddr{IP: net.IPv6loopback, Port: 9}}); err == nil && !connIsNil(c) {
			c.Close()
		}
		cancel()
	case "dial-bindfail":
		// the local address is not an address of this host: bind fails after socket()
		ln, addr, err := e3Listen("tcp4")
		if err != nil {
			return ""
		}
		if raddr, err := ResolveTCPAddr("tcp", addr); err == nil {
			ctx, cancel := context.WithTimeout(context.Background(), time.Second)
			if c, err := DialTCP(ctx, "tcp", &TCPAddr{TCPAddr: net.TCPAddr{IP: net.IPv4(192, 0, 2, 1)}}, raddr); err == nil && !connIsNil(c) {
				c.Close()
			}
			cancel()
		}
		ln.Close()
	case "dial-unix-bindfail":
		// the local path already exists: bind fails after socket()
		ln, addr, err := e3Listen("unix")
		if err != nil {
			return ""
		}
		if raddr, err := ResolveUnixAddr("unix", addr); err == nil {
			if c, err := DialUnix("unix", raddr, raddr); err == nil && !connIsNil(c) {
				c.Close()
			}
		}
		ln.Close()
		os.Remove(addr)
	case "dial-regfail":
		// a dial whose connect succeeds but whose registration with the poller fails: the steps of DialTCP,
		// with the descriptor added to every poller's epoll set beforehand so that EPOLL_CTL_ADD returns EEXIST
		ln, addr, err := e3Listen("tcp4")
		if err != nil {
			return ""
		}
		go func() {
			for {
				c, err := ln.Accept()
				if err != nil {
					return
				}
				go func() { io.Copy(io.Discard, c); c.Close() }()
			}
		}()
		raddr, err := ResolveTCPAddr("tcp", addr)
		if err == nil {
			ctx, cancel := context.WithTimeout(context.Background(), time.Second)
			nfd, err := internetSocket(ctx, "tcp", nil, raddr, syscall.SOCK_STREAM, 0, "dial")
			cancel()
			if err == nil {
				for _, p := range pollmanager.polls {
					if dp, ok := p.(*defaultPoll); ok {
						var evt epollevent
						evt.events = syscall.EPOLLIN
						EpollCtl(dp.fd, syscall.EPOLL_CTL_ADD, nfd.fd, &evt)
					}
				}
				if c, err := newTCPConnection(nfd); err == nil {
					c.Close()
				}
			}
		}
		ln.Close()
	case "dial-timeout":
		addr, cl, ok := blackhole()
		if !ok {
			return ""
		}
		if c, err := DialConnection("tcp", addr, 2*time.Millisecond); err == nil {
			c.Close()
		}
		cl()
	case "server-tcp", "server-unix", "server-prepare-close", "server-prepare-detach":
		nw := "tcp4"
		if kind == "server-unix" {
			nw = "unix"
		}
		nl, addr, err := e3Listen(nw)
		if err != nil {
			return ""
		}
		// the prepare variants: OnPrepare closes the accepted connection, or detaches it (the descriptor is then
		// the application's: netpoll must not close it; it is identified by its inode, closed by us at the end)
		type detached struct {
			fd  int
			ino uint64
		}
		var dmu sync.Mutex
		var dets []detached
		var popts []Option
		if kind == "server-prepare-close" {
			popts = append(popts, WithOnPrepare(func(conn Connection) context.Context { conn.Close(); return context.Background() }))
		} else if kind == "server-prepare-detach" {
			popts = append(popts, WithOnPrepare(func(conn Connection) context.Context {
				c := conn.(*connection)
				var st syscall.Stat_t
				fd := c.Fd()
				if c.Detach() == nil && syscall.Fstat(fd, &st) == nil {
					dmu.Lock()
					dets = append(dets, detached{fd, st.Ino})
					dmu.Unlock()
				}
				return context.Background()
			}))
		}
		defer func() {
			dmu.Lock()
			defer dmu.Unlock()
			for _, d := range dets {
				var st syscall.Stat_t
				if err := syscall.Fstat(d.fd, &st); err != nil || st.Ino != d.ino {
					if msg == "" {
						msg = fmt.Sprintf("descriptor %d was detached in OnPrepare and belongs to the application, but netpoll closed it (fstat now: %v, inode %d, was %d)", d.fd, err, st.Ino, d.ino)
					}
					continue
				}
				syscall.Close(d.fd)
			}
		}()
		evl, _ := NewEventLoop(func(ctx context.Context, conn Connection) error {
			n := conn.Reader().Len()
			p, _ := conn.Reader().Next(n)
			w, _ := conn.Writer().Malloc(n)
			copy(w, p)
			conn.Reader().Release()
			conn.Writer().Flush()
			return nil
		}, popts...)
		done := make(chan error, 1)
		go func() { done <- evl.Serve(nl) }()
		dn := "tcp"
		if nw == "unix" {
			dn = "unix"
		}
		var cs []net.Conn
		for i := 0; i < 3; i++ {
			if c, err := net.DialTimeout(dn, addr, time.Second); err == nil {
				c.Write([]byte("hello"))
				if kind == "server-tcp" || kind == "server-unix" {
					c.SetReadDeadline(time.Now().Add(5 * time.Second))
					io.ReadFull(c, make([]byte, 5))
				} else {
					// nobody answers: wait until the server side has dealt with the connection
					c.SetReadDeadline(time.Now().Add(200 * time.Millisecond))
					c.Read(make([]byte, 1))
				}
				cs = append(cs, c)
			}
		}
		if len(cs) > 0 {
			cs[0].Close() // one client leaves before the shutdown
		}
		ctx, cancel := context.WithTimeout(context.Background(), 5*time.Second)
		if err := evl.Shutdown(ctx); err != nil {
			cancel()
			return "Shutdown of an idle server failed: " + err.Error()
		}
		cancel()
		<-done
		for _, c := range cs {
			c.Close()
		}
		if nw == "unix" {
			os.Remove(addr)
		}
	case "listener-create":
		path := filepath.Join(os.TempDir(), fmt.Sprintf("verif-l-%d-%d.sock", os.Getpid(), atomic.AddInt64(&e3SockSeq, 1)))
		if l, err := CreateListener("unix", path); err == nil {
			l.Close()
		}
		os.Remove(path)
		if l, err := CreateListener("tcp", "127.0.0.1:0"); err == nil {
			l.Close()
		}
	case "fdconn", "detach":
		fds, err := syscall.Socketpair(syscall.AF_UNIX, syscall.SOCK_STREAM, 0)
		if err != nil {
			return ""
		}
		c, err := NewFDConnection(fds[0])
		if err != nil {
			syscall.Close(fds[0])
			syscall.Close(fds[1])
			return ""
		}
		syscall.Write(fds[1], []byte("x"))
		c.SetReadTimeout(5 * time.Second)
		c.Reader().Next(1)
		c.Reader().Release()
		if kind == "detach" {
			c.(*connection).Detach()
			if !fdOpen(fds[0]) {
				syscall.Close(fds[1])
				return "Detach closed the descriptor it was supposed to leave open"
			}
			syscall.Close(fds[0])
		} else {
			c.Close()
		}
		syscall.Close(fds[1])
	case "concurrent-close":
		var conns []Connection
		var peers []int
		for i := 0; i < 4; i++ {
			fds, err := syscall.Socketpair(syscall.AF_UNIX, syscall.SOCK_STREAM, 0)
			if err != nil {
				continue
			}
			c, err := NewFDConnection(fds[0])
			if err != nil {
				syscall.Close(fds[0])
				syscall.Close(fds[1])
				continue
			}
			conns = append(conns, c)
			peers = append(peers, fds[1])
		}
		var wg sync.WaitGroup
		for _, c := range conns {
			for k := 0; k < 2; k++ {
				wg.Add(1)
				go func(c Connection) { defer wg.Done(); c.Close() }(c)
			}
		}
		for _, p := range peers {
			wg.Add(1)
			go func(p int) { defer wg.Done(); syscall.Close(p) }(p)
		}
		wg.Wait()
	case "manager":
		m := newManager(2)
		m.Pick()
		m.SetNumLoops(4)
		m.Pick()
		m.SetNumLoops(1)
		m.Pick()
		m.Close()
	}
	return ""
}

func runFD(s fdScn) (sig, msg string) {
	e3Init()
	Initialize()
	time.Sleep(2 * time.Millisecond)
	base := censusKinds()
	a := startAudit()
	if a == nil {
		return "", ""
	}
	var stepErr string
	for _, k := range s.Steps {
		if e := runFDStep(k); e != "" && stepErr == "" {
			stepErr = k + ": " + e
		}
	}
	// closing is asynchronous for server-side connections and pollers: wait for the census to settle
	var now map[string]int
	settled := false
	for i := 0; i < 1000; i++ {
		a.mu.Lock()
		a.parkLocked()
		a.mu.Unlock()
		now = censusKinds()
		if now["socket"] <= base["socket"] && now["eventpoll"] <= base["eventpoll"] && now["eventfd"] <= base["eventfd"] {
			settled = true
			break
		}
		time.Sleep(5 * time.Millisecond)
	}
	bad := a.stop()
	if len(bad) > 0 {
		return "bad-close", fmt.Sprintf("%s (steps %v)", bad[0], s.Steps)
	}
	if stepErr != "" {
		return "step-failed", stepErr
	}
	if !settled {
		return "descriptor-leak", fmt.Sprintf("descriptors before %v, after everything was closed %v (steps %v)", base, now, s.Steps)
	}
	return "", ""
}

func TestVerifC15(t *testing.T) {
	st := newStats("C15")
	defer st.write()
	if vReplay != "" {
		var rec struct {
			Scenario fdScn `json:"scenario"`
		}
		if err := vLoadReplay(&rec); err != nil {
			t.Fatalf("replay: %v", err)
		}
		st.eval()
		for i := 0; i < 5; i++ {
			if sig, msg := runFD(rec.Scenario); sig != "" {
				vReport(vViolation{Property: "C15", Slot: "replay:C15", Signature: sig, Message: msg, Replay: map[string]interface{}{"scenario": rec.Scenario}})
				t.Fatalf("C15 violated [%s]: %s", sig, msg)
			}
		}
		return
	}
	rapid.Check(t, func(t *rapid.T) {
		s := fdScn{}
		for i, n := 0, rapid.IntRange(1, 6).Draw(t, "nsteps"); i < n; i++ {
			s.Steps = append(s.Steps, rapid.SampledFrom(fdStepKinds).Draw(t, "step"))
		}
		sig, msg := runFD(s)
		st.eval()
		if sig != "" {
			vReport(vViolation{Property: "C15", Slot: "rapid:C15", Signature: sig, Message: msg, Replay: map[string]interface{}{"scenario": s}})
			t.Fatalf("C15 violated [%s]: %s", sig, msg)
		}
		nontrivial := false
		for _, k := range s.Steps {
			st.class("step-" + k)
			if k == "dial-refused" || k == "dial-timeout" || k == "concurrent-close" || strings.HasPrefix(k, "server") {
				nontrivial = true
			}
		}
		if nontrivial {
			st.class("nontrivial")
			if st.nontrivial(fmt.Sprint(s.Steps)) {
				st.sample(s)
			}
		}
	})
}

// ------------------------------------------------------------------ C18: poller pool

type poolPhase struct {
	Loops      int `json:"loops"`
	LB         int `json:"lb"` // 0 round robin, 1 random
	Goroutines int `json:"goroutines"`
	Picks      int `json:"picks"`
	// Trigger: at the end of the phase every poller of the pool is sent Trigger this many times (Poll.Trigger is
	// public; the holder of a picked poller may wake it at any time), so that the next reconfiguration or the
	// final Close can meet a wake-up that the loop has not consumed yet
	Trigger int `json:"trigger,omitempty"`
}

type poolScn struct {
	First  int         `json:"first"` // size given to newManager
	Phases []poolPhase `json:"phases"`
}

// pollerAlive registers a socketpair end on the poller and expects its OnRead callback after one byte.
func pollerAlive(p Poll) bool {
	fds, err := syscall.Socketpair(syscall.AF_UNIX, syscall.SOCK_STREAM, 0)
	if err != nil {
		return true
	}
	defer syscall.Close(fds[0])
	defer syscall.Close(fds[1])
	fired := make(chan struct{}, 1)
	op := &FDOperator{FD: fds[0], poll: p}
	op.OnRead = func(Poll) error {
		var b [8]byte
		syscall.Read(fds[0], b[:])
		select {
		case fired <- struct{}{}:
		default:
		}
		return nil
	}
	if err := op.Control(PollReadable); err != nil {
		return false
	}
	defer op.Control(PollDetach)
	syscall.Write(fds[1], []byte("x"))
	select {
	case <-fired:
		return true
	case <-time.After(10 * time.Second):
		return false
	}
}

func runPool(s poolScn) (sig, msg string) {
	e3Init()
	base := censusKinds()
	m := newManager(s.First)
	defer func() {
		if m.polls != nil {
			m.Close()
		}
	}()
	for pi, ph := range s.Phases {
		if pi > 0 || ph.Loops != s.First {
			if err := m.SetNumLoops(ph.Loops); err != nil {
				return "setnumloops", err.Error()
			}
		}
		m.SetLoadBalance(LoadBalance(ph.LB))
		counts := make([]map[Poll]int, ph.Goroutines)
		var wg sync.WaitGroup
		var nilPicks int32
		for g := 0; g < ph.Goroutines; g++ {
			g := g
			counts[g] = map[Poll]int{}
			wg.Add(1)
			go func() {
				defer wg.Done()
				for i := 0; i < ph.Picks; i++ {
					p := m.Pick()
					if p == nil {
						atomic.AddInt32(&nilPicks, 1)
						continue
					}
					counts[g][p]++
				}
			}()
		}
		donec := make(chan struct{})
		go func() { wg.Wait(); close(donec) }()
		select {
		case <-donec:
		case <-time.After(30 * time.Second):
			return "pick-hang", fmt.Sprintf("phase %d: Pick did not return\n%s", pi, goroutineDump())
		}
		if nilPicks > 0 {
			return "nil-poller", fmt.Sprintf("phase %d: Pick returned nil %d times", pi, nilPicks)
		}
		if len(m.polls) != ph.Loops {
			return "pool-size", fmt.Sprintf("phase %d: %d loops configured, the pool has %d", pi, ph.Loops, len(m.polls))
		}
		member := map[Poll]bool{}
		for _, p := range m.polls {
			member[p] = true
		}
		total := map[Poll]int{}
		for _, c := range counts {
			for p, n := range c {
				if !member[p] {
					return "foreign-poller", fmt.Sprintf("phase %d: Pick returned a poller that is not in the pool (a closed or stale one)", pi)
				}
				total[p] += n
			}
		}
		for _, p := range m.polls {
			if !pollerAlive(p) {
				return "poller-not-running", fmt.Sprintf("phase %d: a poller of the pool does not dispatch events (its loop is not running)", pi)
			}
		}
		if ph.LB == 0 {
			lo, hi := 1<<30, 0
			for _, p := range m.polls {
				n := total[p]
				if n < lo {
					lo = n
				}
				if n > hi {
					hi = n
				}
			}
			if hi-lo > 1 {
				return "round-robin-uneven", fmt.Sprintf("phase %d: %d picks over %d pollers, per-poller counts between %d and %d", pi, ph.Goroutines*ph.Picks, ph.Loops, lo, hi)
			}
		}
		// surplus pollers of a shrink have released their descriptors
		want := base["eventpoll"] + ph.Loops
		ok := false
		var now map[string]int
		for i := 0; i < 600; i++ {
			now = censusKinds()
			if now["eventpoll"] == want && now["eventfd"] == base["eventfd"]+ph.Loops {
				ok = true
				break
			}
			time.Sleep(5 * time.Millisecond)
		}
		if !ok {
			return "pool-descriptors", fmt.Sprintf("phase %d: %d loops, expected %d epoll and %d wake-up descriptors, found %d and %d", pi, ph.Loops, want, base["eventfd"]+ph.Loops, now["eventpoll"], now["eventfd"])
		}
		for i := 0; i < ph.Trigger; i++ {
			for _, p := range m.polls {
				p.Trigger()
			}
		}
	}
	m.Close()
	for i := 0; i < 600; i++ {
		now := censusKinds()
		if now["eventpoll"] == base["eventpoll"] && now["eventfd"] == base["eventfd"] {
			return "", ""
		}
		time.Sleep(5 * time.Millisecond)
	}
	return "close-leak", fmt.Sprintf("after manager.Close: %v, baseline %v", censusKinds(), base)
}

func TestVerifC18(t *testing.T) {
	st := newStats("C18")
	defer st.write()
	if vReplay != "" {
		var rec struct {
			Scenario poolScn `json:"scenario"`
		}
		if err := vLoadReplay(&rec); err != nil {
			t.Fatalf("replay: %v", err)
		}
		st.eval()
		for i := 0; i < 10; i++ {
			if sig, msg := runPool(rec.Scenario); sig != "" {
				vReport(vViolation{Property: "C18", Slot: "replay:C18", Signature: sig, Message: msg, Replay: map[string]interface{}{"scenario": rec.Scenario}})
				t.Fatalf("C18 violated [%s]: %s", sig, msg)
			}
		}
		return
	}
	rapid.Check(t, func(t *rapid.T) {
		s := poolScn{First: rapid.IntRange(1, 5).Draw(t, "first")}
		for i, n := 0, rapid.IntRange(1, 4).Draw(t, "phases"); i < n; i++ {
			ph := poolPhase{Loops: rapid.IntRange(1, 6).Draw(t, "loops"), LB: rapid.IntRange(0, 1).Draw(t, "lb"),
				Goroutines: rapid.SampledFrom([]int{1, 2, 8, 32}).Draw(t, "goroutines"), Picks: rapid.IntRange(1, 40).Draw(t, "picks"),
				Trigger: rapid.SampledFrom([]int{0, 0, 1, 1, 3}).Draw(t, "trigger")}
			if i == 0 && rapid.Bool().Draw(t, "keepFirst") {
				ph.Loops = s.First
			}
			s.Phases = append(s.Phases, ph)
		}
		sig, msg := runPool(s)
		st.eval()
		if sig != "" {
			vReport(vViolation{Property: "C18", Slot: "rapid:C18", Signature: sig, Message: msg, Replay: map[string]interface{}{"scenario": s}})
			t.Fatalf("C18 violated [%s]: %s\nscenario %+v", sig, msg, s)
		}
		shrink, conc := false, false
		for i, ph := range s.Phases {
			if i > 0 && ph.Loops < s.Phases[i-1].Loops {
				shrink = true
			}
			if ph.Goroutines > 1 {
				conc = true
			}
		}
		if shrink {
			st.class("shrink")
		}
		if conc {
			st.class("concurrent-picks")
			st.class("nontrivial")
			if st.nontrivial(fmt.Sprintf("%+v", s)) {
				st.sample(s)
			}
		}
	})
}

// ------------------------------------------------------------------ C19: the workloads above under the race detector

// runCloseRace: one reader, one writer, several closers on one connection pair (the documented concurrency contract).
func runCloseRace(network string, closers int, payload int) string {
	e3Init()
	ln, addr, err := e3Listen(network)
	if err != nil {
		return ""
	}
	var srvConn atomic.Value
	evl, _ := NewEventLoop(func(ctx context.Context, conn Connection) error {
		n := conn.Reader().Len()
		p, _ := conn.Reader().Next(n)
		w, err := conn.Writer().Malloc(len(p))
		if err == nil {
			copy(w, p)
			conn.Writer().Flush()
		}
		conn.Reader().Release()
		return nil
	}, WithOnPrepare(func(conn Connection) context.Context { srvConn.Store(conn); return context.Background() }),
		WithOnDisconnect(func(ctx context.Context, conn Connection) {}),
		WithOnConnect(func(ctx context.Context, conn Connection) context.Context { return ctx }))
	done := make(chan error, 1)
	go func() { done <- evl.Serve(ln) }()
	nw := "tcp"
	if network == "unix" {
		nw = "unix"
	}
	c, err := DialConnection(nw, addr, 2*time.Second)
	if err != nil {
		return ""
	}
	c.SetReadTimeout(200 * time.Millisecond)
	c.SetWriteTimeout(200 * time.Millisecond)
	// Serve must have taken the listener over before Shutdown can stop it
	for i := 0; i < 4000 && srvConn.Load() == nil; i++ {
		time.Sleep(500 * time.Microsecond)
	}
	var wg sync.WaitGroup
	wg.Add(2)
	go func() { // the one writer
		defer wg.Done()
		for i := 0; i < 20; i++ {
			p, err := c.Writer().Malloc(payload)
			if err != nil {
				return
			}
			copy(p, keyedBytes(i*payload, payload))
			if c.Writer().Flush() != nil {
				return
			}
		}
	}()
	go func() { // the one reader
		defer wg.Done()
		for i := 0; i < 20; i++ {
			if _, err := c.Reader().Next(payload); err != nil {
				return
			}
			c.Reader().Release()
			c.IsActive()
		}
	}()
	for k := 0; k < closers; k++ {
		wg.Add(1)
		k := k
		go func() {
			defer wg.Done()
			time.Sleep(time.Duration(50*(k+1)) * time.Microsecond)
			if k%2 == 1 {
				if sc, _ := srvConn.Load().(Connection); sc != nil {
					sc.Close()
					return
				}
			}
			c.Close()
		}()
	}
	wg.Wait()
	c.Close()
	ctx, cancel := context.WithTimeout(context.Background(), 2*time.Second)
	evl.Shutdown(ctx)
	cancel()
	<-done
	if network == "unix" {
		os.Remove(addr)
	}
	return ""
}

// runBlockedWrite: one writer stuck in a partial flush (the peer never reads), any number of closers, and
// optionally a user close callback that takes a while (it runs before netpoll's own finalizer).
func runBlockedWrite(payload, closers, delayUS, cbSleepUS, api int, wtimeoutMS int) string {
	e3Init()
	var fds [2]int
	fds, err := syscall.Socketpair(syscall.AF_UNIX, syscall.SOCK_STREAM, 0)
	if err != nil {
		return ""
	}
	syscall.SetsockoptInt(fds[0], syscall.SOL_SOCKET, syscall.SO_SNDBUF, 4096)
	c, err := NewFDConnection(fds[0])
	if err != nil {
		syscall.Close(fds[0])
		syscall.Close(fds[1])
		return ""
	}
	if cbSleepUS > 0 {
		c.AddCloseCallback(func(Connection) error {
			time.Sleep(time.Duration(cbSleepUS) * time.Microsecond)
			return nil
		})
	}
	if wtimeoutMS > 0 {
		c.SetWriteTimeout(time.Duration(wtimeoutMS) * time.Millisecond)
	}
	var wg sync.WaitGroup
	var started int32
	p := keyedBytes(0, payload)
	wg.Add(1)
	go func() { // the one writer
		defer wg.Done()
		atomic.StoreInt32(&started, 1)
		switch api {
		case 0:
			c.Write(p)
		case 1:
			if b, err := c.Writer().Malloc(payload); err == nil {
				copy(b, p)
				c.Writer().Flush()
			}
		default:
			c.Writer().WriteBinary(p)
			c.Writer().Flush()
		}
	}()
	for k := 0; k < closers; k++ {
		wg.Add(1)
		k := k
		go func() {
			defer wg.Done()
			// Close lands while the writer is copying, sending or waiting, depending on the delay
			for atomic.LoadInt32(&started) == 0 {
				runtime.Gosched()
			}
			time.Sleep(time.Duration(delayUS*(k+1)) * time.Microsecond)
			c.Close()
		}()
	}
	wg.Wait()
	c.Close()
	syscall.Close(fds[1])
	return ""
}

// runDialHold: the number of live connections grows (the pollers' operator caches grow with it, from the
// dialing goroutines) while other goroutines dial and close (operators are freed and recycled by the pollers).
func runDialHold(network string, holders, perHolder, churners int) string {
	e3Init()
	ln, addr, err := e3Listen(network)
	if err != nil {
		return ""
	}
	evl, _ := NewEventLoop(func(ctx context.Context, conn Connection) error {
		conn.Reader().Skip(conn.Reader().Len())
		conn.Reader().Release()
		return nil
	})
	done := make(chan error, 1)
	go func() { done <- evl.Serve(ln) }()
	nw := "tcp"
	if network == "unix" {
		nw = "unix"
	}
	var stop int32
	var hw, cw sync.WaitGroup
	held := make([][]Connection, holders)
	for h := 0; h < holders; h++ {
		hw.Add(1)
		h := h
		go func() {
			defer hw.Done()
			for i := 0; i < perHolder; i++ {
				if c, err := DialConnection(nw, addr, 2*time.Second); err == nil && !connIsNil(c) {
					held[h] = append(held[h], c)
				}
			}
		}()
	}
	for k := 0; k < churners; k++ {
		cw.Add(1)
		go func() {
			defer cw.Done()
			for atomic.LoadInt32(&stop) == 0 {
				if c, err := DialConnection(nw, addr, 2*time.Second); err == nil && !connIsNil(c) {
					c.Write([]byte("x"))
					c.Close()
				}
			}
		}()
	}
	hw.Wait()
	atomic.StoreInt32(&stop, 1)
	cw.Wait()
	for _, l := range held {
		for _, c := range l {
			c.Close()
		}
	}
	ctx, cancel := context.WithTimeout(context.Background(), 3*time.Second)
	evl.Shutdown(ctx)
	cancel()
	<-done
	if network == "unix" {
		os.Remove(addr)
	}
	return ""
}

func TestVerifC19(t *testing.T) {
	st := newStats("C19")
	defer st.write()
	Initialize()
	rapid.Check(t, func(t *rapid.T) {
		kind := rapid.SampledFrom([]string{"bulk", "bulk", "shutdown", "dial", "pool", "closerace", "closerace", "blockedwrite", "blockedwrite", "dialhold", "fdsteps", "slices"}).Draw(t, "workload")
		st.eval()
		roles := kind
		switch kind {
		case "bulk":
			s := genLiveScn(t, false)
			s.BufSize = 0 // the global default is not changed while pollers of other cases may still read it
			for i := range s.Conns {
				if s.Conns[i].Total > 200000 {
					s.Conns[i].Total = 200000
				}
				if s.Conns[i].Back > 100000 {
					s.Conns[i].Back = 100000
				}
			}
			if sig, msg := runLive(s); sig != "" {
				st.class("functional-failure-ignored-here:" + sig)
				_ = msg
			}
			roles = fmt.Sprintf("bulk/%s/%d", s.Network, len(s.Conns))
		case "shutdown":
			s := shutScn{Network: rapid.SampledFrom([]string{"tcp4", "unix"}).Draw(t, "network"), Idle: rapid.IntRange(0, 3).Draw(t, "idle"), Busy: rapid.IntRange(0, 2).Draw(t, "busy"), Closing: rapid.IntRange(0, 3).Draw(t, "closing"), DeadlineMS: 150, ReleaseMS: rapid.SampledFrom([]int{0, 20, -1}).Draw(t, "release")}
			runShutdown(s)
			roles = fmt.Sprintf("shutdown/%+v", s)
		case "dial":
			s := dialScn{Target: rapid.SampledFrom([]string{"tcp4", "unix", "refused", "blackhole", "reset"}).Draw(t, "target"), TimeoutUS: rapid.SampledFrom([]int{100, 1000, 20000}).Draw(t, "timeout"), N: rapid.SampledFrom([]int{2, 8, 16}).Draw(t, "n")}
			runDial(s)
			roles = fmt.Sprintf("dial/%s/%d", s.Target, s.N)
		case "pool":
			s := poolScn{First: rapid.IntRange(1, 3).Draw(t, "first")}
			for i, n := 0, rapid.IntRange(1, 3).Draw(t, "phases"); i < n; i++ {
				s.Phases = append(s.Phases, poolPhase{Loops: rapid.IntRange(1, 4).Draw(t, "loops"), LB: rapid.IntRange(0, 1).Draw(t, "lb"), Goroutines: rapid.SampledFrom([]int{2, 8}).Draw(t, "g"), Picks: rapid.IntRange(1, 20).Draw(t, "picks")})
			}
			runPool(s)
			roles = fmt.Sprintf("pool/%d", len(s.Phases))
		case "closerace":
			nw := rapid.SampledFrom([]string{"tcp4", "unix"}).Draw(t, "network")
			k := rapid.IntRange(1, 4).Draw(t, "closers")
			pl := rapid.SampledFrom([]int{1, 100, 5000, 70000}).Draw(t, "payload")
			runCloseRace(nw, k, pl)
			roles = fmt.Sprintf("closerace/%s/%d/%d", nw, k, pl)
		case "dialhold":
			nw := rapid.SampledFrom([]string{"tcp4", "unix"}).Draw(t, "network")
			h := rapid.IntRange(1, 4).Draw(t, "holders")
			per := rapid.SampledFrom([]int{30, 60, 120}).Draw(t, "per")
			ch := rapid.IntRange(1, 4).Draw(t, "churners")
			runDialHold(nw, h, per, ch)
			roles = fmt.Sprintf("dialhold/%s/%d/%d/%d", nw, h, per, ch)
		case "blockedwrite":
			pl := rapid.SampledFrom([]int{100000, 1 << 20, 4 << 20}).Draw(t, "payload")
			k := rapid.IntRange(1, 3).Draw(t, "closers")
			dl := rapid.SampledFrom([]int{0, 50, 300, 1000, 3000}).Draw(t, "delay")
			cb := rapid.SampledFrom([]int{0, 5000, 50000}).Draw(t, "cbsleep")
			api := rapid.SampledFrom([]int{0, 0, 1, 2}).Draw(t, "api") // Write checks the state before it copies: the wide window
			wt := rapid.SampledFrom([]int{0, 0, 1, 50}).Draw(t, "wtimeout")
			runBlockedWrite(pl, k, dl, cb, api, wt)
			roles = fmt.Sprintf("blockedwrite/%d/%d/%d/%d/%d/%d", pl, k, dl, cb, api, wt)
		case "slices":
			// Slice readers of one parent read and released on their own goroutines (e1_conc_test.go); the
			// functional oracles are C02/C03's business, here only the race detector judges
			c := genConcCase(t, "C19")
			for r := 0; r < 40; r++ {
				if _, sig, _, _ := runConcOnce(c, false); sig != "" {
					st.class("functional-failure-ignored-here:" + sig)
					break
				}
			}
			roles = fmt.Sprintf("slices/cap%d/%d-writes/%d-readers/%d-tail", c.Cap, len(c.Writes), len(c.Kids), len(c.Tail))
		case "fdsteps":
			for i, n := 0, rapid.IntRange(1, 3).Draw(t, "n"); i < n; i++ {
				k := rapid.SampledFrom(fdStepKinds).Draw(t, "step")
				runFDStep(k)
				roles += "/" + k
			}
		}
		st.class("workload-" + kind)
		if st.nontrivial(roles) {
			st.sample(roles)
		}
	})
}
