//go:build go1.18

// E3 livenet: generated workloads on real threads, real pollers, real sockets. Oracles are
// schedule-independent (position-keyed streams, censuses), waiting is "until condition, with a stall
// bound measured from the last observed progress".
package netpoll

import (
	"context"
	"fmt"
	"io"
	"net"
	"os"
	"path/filepath"
	"runtime"
	"strconv"
	"strings"
	"sync"
	"sync/atomic"
	"syscall"
	"testing"
	"time"

	"pgregory.net/rapid"
)

var e3Once sync.Once

func e3Init() {
	e3Once.Do(func() {
		SetLoggerOutput(io.Discard)
	})
}

var e3StallBound = 30 * time.Second

// waitProgress waits until done() holds; progress() is a monotone counter - the wait fails only
// when it has not moved for e3StallBound.
func waitProgress(done func() bool, progress func() int64) bool {
	last, lastAt := progress(), time.Now()
	for !done() {
		time.Sleep(200 * time.Microsecond)
		if p := progress(); p != last {
			last, lastAt = p, time.Now()
		} else if time.Since(lastAt) > e3StallBound {
			return false
		}
	}
	return true
}

func goroutineDump() string {
	buf := make([]byte, 1<<20)
	return string(buf[:runtime.Stack(buf, true)])
}

var e3SockSeq int64

func e3Listen(network string) (net.Listener, string, error) {
	switch network {
	case "unix":
		path := filepath.Join(os.TempDir(), fmt.Sprintf("verif-%d-%d.sock", os.Getpid(), atomic.AddInt64(&e3SockSeq, 1)))
		os.Remove(path)
		ln, err := net.Listen("unix", path)
		return ln, path, err
	case "tcp6":
		ln, err := net.Listen("tcp6", "[::1]:0")
		if err != nil {
			return nil, "", err
		}
		return ln, ln.Addr().String(), nil
	default:
		ln, err := net.Listen("tcp4", "127.0.0.1:0")
		if err != nil {
			return nil, "", err
		}
		return ln, ln.Addr().String(), nil
	}
}

func fdCensus() map[int]string {
	m := map[int]string{}
	ents, err := os.ReadDir("/proc/self/fd")
	if err != nil {
		return m
	}
	for _, e := range ents {
		n, err := strconv.Atoi(e.Name())
		if err != nil {
			continue
		}
		l, err := os.Readlink("/proc/self/fd/" + e.Name())
		if err != nil {
			continue // the descriptor of the directory listing itself
		}
		m[n] = l
	}
	return m
}

func socketCount() int {
	n := 0
	for _, l := range fdCensus() {
		if strings.HasPrefix(l, "socket:") {
			n++
		}
	}
	return n
}

// ------------------------------------------------------------------ C04 bulk

type liveConn struct {
	Total   int   `json:"total"`   // bytes client -> server
	Back    int   `json:"back"`    // bytes server -> client
	Chunks  []int `json:"chunks"`  // client write sizes (cycled)
	APIs    []int `json:"apis"`    // writer API per write (cycled): 0 Malloc+Flush 1 Write 2 WriteBinary 3 WriteString 4 mixed+one Flush
	Reads   []int `json:"reads"`   // reader request sizes (cycled)
	ReadOps []int `json:"readops"` // 0 Next 1 Peek+Skip 2 ReadBinary 3 Slice 4 Read 5 ReadString
	SndBuf  int   `json:"sndbuf"`
	RcvBuf  int   `json:"rcvbuf"`
	PaceUS  int   `json:"pace_us"`
}

type liveScn struct {
	Network string     `json:"network"`
	Conns   []liveConn `json:"conns"`
}

func genLiveScn(t *rapid.T, big bool) liveScn {
	s := liveScn{Network: rapid.SampledFrom([]string{"tcp4", "tcp4", "tcp6", "unix"}).Draw(t, "network")}
	if !hasIPv6() && s.Network == "tcp6" {
		s.Network = "tcp4"
	}
	nc := rapid.IntRange(1, 4).Draw(t, "nconns")
	for i := 0; i < nc; i++ {
		c := liveConn{}
		maxTotal := 1 << 20
		if big {
			maxTotal = 8 << 20
		}
		c.Total = rapid.OneOf(rapid.IntRange(1, 2000), rapid.IntRange(1, 200000), rapid.IntRange(1, maxTotal)).Draw(t, "total")
		c.Back = rapid.OneOf(rapid.Just(0), rapid.IntRange(1, 2000), rapid.IntRange(1, maxTotal/4)).Draw(t, "back")
		for j, n := 0, rapid.IntRange(1, 5).Draw(t, "nchunks"); j < n; j++ {
			c.Chunks = append(c.Chunks, rapid.OneOf(rapid.IntRange(1, 100), rapid.IntRange(1, 9000), rapid.IntRange(4000, 300000), rapid.SampledFrom([]int{4095, 4096, 4097, 8192})).Draw(t, "chunk"))
			c.APIs = append(c.APIs, rapid.IntRange(0, 4).Draw(t, "api"))
		}
		for j, n := 0, rapid.IntRange(1, 5).Draw(t, "nreads"); j < n; j++ {
			c.Reads = append(c.Reads, rapid.OneOf(rapid.IntRange(1, 100), rapid.IntRange(1, 9000), rapid.IntRange(4000, 100000)).Draw(t, "read"))
			c.ReadOps = append(c.ReadOps, rapid.IntRange(0, 5).Draw(t, "readop"))
		}
		c.SndBuf = rapid.SampledFrom([]int{0, 2048, 4096, 16384, 65536}).Draw(t, "sndbuf")
		c.RcvBuf = rapid.SampledFrom([]int{0, 2048, 4096, 16384, 65536}).Draw(t, "rcvbuf")
		c.PaceUS = rapid.SampledFrom([]int{0, 0, 0, 20, 200}).Draw(t, "pace")
		s.Conns = append(s.Conns, c)
	}
	return s
}

var ipv6Once sync.Once
var ipv6OK bool

func hasIPv6() bool {
	ipv6Once.Do(func() {
		ln, err := net.Listen("tcp6", "[::1]:0")
		if err == nil {
			ln.Close()
			ipv6OK = true
		}
	})
	return ipv6OK
}

// streamReader consumes a position-keyed stream through a generated mix of Reader calls.
type streamReader struct {
	base    int
	got     int64
	reads   []int
	ops     []int
	i       int
	bad     string
	pace    int
	blocked bool // may use blocking calls (a user goroutine) or only what is buffered (a handler)
}

func (sr *streamReader) fail(format string, a ...interface{}) {
	if sr.bad == "" {
		sr.bad = fmt.Sprintf(format, a...)
	}
}

// step performs one read of at most `limit` bytes (limit<0: whatever the script says); returns bytes consumed.
func (sr *streamReader) step(conn Connection, limit int) (int, error) {
	n := sr.reads[sr.i%len(sr.reads)]
	op := sr.ops[sr.i%len(sr.ops)]
	sr.i++
	if limit >= 0 && n > limit {
		n = limit
	}
	if n <= 0 {
		return 0, nil
	}
	off := sr.base + int(atomic.LoadInt64(&sr.got))
	var p []byte
	var err error
	rd := conn.Reader()
	switch op {
	case 0:
		p, err = rd.Next(n)
	case 1:
		p, err = rd.Peek(n)
		if err == nil {
			p = append([]byte(nil), p...)
			err = rd.Skip(n)
		}
	case 2:
		p, err = rd.ReadBinary(n)
	case 3:
		var sl Reader
		sl, err = rd.Slice(n)
		if err == nil {
			p, err = sl.Next(n)
			p = append([]byte(nil), p...)
			sl.Release()
		}
	case 4:
		buf := make([]byte, n)
		var k int
		k, err = conn.Read(buf)
		p = buf[:k]
		n = k
	case 5:
		var s string
		s, err = rd.ReadString(n)
		p = []byte(s)
	}
	if err != nil {
		return 0, err
	}
	if len(p) != n {
		sr.fail("read op %d asked %d bytes, got %d at stream offset %d", op, n, len(p), off-sr.base)
	} else if d := firstDiff(p, keyedBytes(off, n)); d >= 0 {
		sr.fail("read op %d: byte %d of the stream differs (asked %d at offset %d)", op, off-sr.base+d, n, off-sr.base)
	}
	rd.Release()
	atomic.AddInt64(&sr.got, int64(n))
	if sr.pace > 0 {
		time.Sleep(time.Duration(sr.pace) * time.Microsecond)
	}
	return n, nil
}

func writeStream(conn Connection, base, total int, chunks, apis []int) error {
	w := conn.Writer()
	sent := 0
	for i := 0; sent < total; i++ {
		k := chunks[i%len(chunks)]
		if k > total-sent {
			k = total - sent
		}
		data := keyedBytes(base+sent, k)
		var err error
		switch apis[i%len(apis)] {
		case 1:
			_, err = conn.Write(data)
		case 2:
			if _, err = w.WriteBinary(data); err == nil {
				err = w.Flush()
			}
		case 3:
			if _, err = w.WriteString(string(data)); err == nil {
				err = w.Flush()
			}
		case 4:
			h := k / 2
			var p []byte
			if p, err = w.Malloc(h); err == nil {
				copy(p, data[:h])
				if err = w.WriteByte(data[h]); err == nil {
					if k-h-1 > 0 {
						_, err = w.WriteBinary(data[h+1:])
					}
					if err == nil {
						err = w.Flush()
					}
				}
			}
		default:
			var p []byte
			if p, err = w.Malloc(k); err == nil {
				copy(p, data)
				err = w.Flush()
			}
		}
		if err != nil {
			return fmt.Errorf("write %d (api %d, %d bytes at offset %d): %w", i, apis[i%len(apis)], k, sent, err)
		}
		sent += k
	}
	return nil
}

const (
	liveUpBase   = 0
	liveBackBase = 1 << 28
)

// runLive executes one bulk scenario; returns a failure description or "".
func runLive(s liveScn) (sig, msg string) {
	e3Init()
	ln, addr, err := e3Listen(s.Network)
	if err != nil {
		return "", "" // cannot listen here (e.g. no IPv6): not a verdict
	}
	type srvState struct {
		idx    int
		sr     *streamReader
		eof    int32
		backOK int32
		werr   atomic.Value
	}
	var mu sync.Mutex
	states := map[Connection]*srvState{}
	byIdx := make([]*srvState, len(s.Conns))
	var accepted int32
	onRequest := func(ctx context.Context, conn Connection) error {
		mu.Lock()
		st := states[conn]
		mu.Unlock()
		if st == nil {
			// first bytes: 4-byte connection index
			if conn.Reader().Len() < 4 {
				// not enough yet: consume nothing; the next delivery re-invokes the handler
				time.Sleep(50 * time.Microsecond)
				return nil
			}
			p, _ := conn.Reader().Next(4)
			idx := int(p[0]) | int(p[1])<<8
			conn.Reader().Release()
			c := s.Conns[idx]
			st = &srvState{idx: idx, sr: &streamReader{base: liveUpBase + idx*(16<<20), reads: c.Reads, ops: c.ReadOps, pace: c.PaceUS}}
			mu.Lock()
			states[conn] = st
			byIdx[idx] = st
			mu.Unlock()
			atomic.AddInt32(&accepted, 1)
			if c.Back > 0 {
				go func() {
					if err := writeStream(conn, liveBackBase+idx*(16<<20), c.Back, c.Chunks, c.APIs); err != nil {
						st.werr.Store(err.Error())
					}
					atomic.StoreInt32(&st.backOK, 1)
				}()
			} else {
				atomic.StoreInt32(&st.backOK, 1)
			}
		}
		for conn.Reader().Len() > 0 {
			if _, err := st.sr.step(conn, conn.Reader().Len()); err != nil {
				st.sr.fail("server read failed with %v at offset %d", err, st.sr.got)
				conn.Reader().Skip(conn.Reader().Len())
				break
			}
		}
		return nil
	}
	evl, _ := NewEventLoop(onRequest)
	served := make(chan error, 1)
	go func() { served <- evl.Serve(ln) }()
	defer func() {
		ctx, cancel := context.WithTimeout(context.Background(), 3*time.Second)
		evl.Shutdown(ctx)
		cancel()
		if s.Network == "unix" {
			os.Remove(addr)
		}
	}()

	type cliState struct {
		conn  Connection
		sr    *streamReader
		werr  error
		rerr  error
		wdone int32
		rdone int32
	}
	clis := make([]*cliState, len(s.Conns))
	for i, c := range s.Conns {
		conn, err := DialConnection(s.Network, addr, 5*time.Second)
		if err != nil {
			return "dial", fmt.Sprintf("dial %s %s: %v", s.Network, addr, err)
		}
		if c.SndBuf > 0 {
			setSndBuf(conn.(Conn).Fd(), c.SndBuf)
		}
		if c.RcvBuf > 0 {
			setRcvBuf(conn.(Conn).Fd(), c.RcvBuf)
		}
		cs := &cliState{conn: conn, sr: &streamReader{base: liveBackBase + i*(16<<20), reads: c.Reads, ops: c.ReadOps, pace: c.PaceUS}}
		clis[i] = cs
		i, c := i, c
		go func() {
			hdr := []byte{byte(i), byte(i >> 8), 0, 0}
			if _, err := conn.Write(hdr); err != nil {
				cs.werr = err
			} else {
				cs.werr = writeStream(conn, liveUpBase+i*(16<<20), c.Total, c.Chunks, c.APIs)
			}
			atomic.StoreInt32(&cs.wdone, 1)
		}()
		go func() {
			for int(atomic.LoadInt64(&cs.sr.got)) < c.Back {
				if _, err := cs.sr.step(conn, c.Back-int(atomic.LoadInt64(&cs.sr.got))); err != nil {
					cs.rerr = err
					break
				}
			}
			atomic.StoreInt32(&cs.rdone, 1)
		}()
	}
	progress := func() int64 {
		var p int64
		for _, cs := range clis {
			p += atomic.LoadInt64(&cs.sr.got) + int64(atomic.LoadInt32(&cs.wdone)) + int64(atomic.LoadInt32(&cs.rdone))
		}
		mu.Lock()
		for _, st := range byIdx {
			if st != nil {
				p += atomic.LoadInt64(&st.sr.got) + int64(atomic.LoadInt32(&st.backOK))
			}
		}
		mu.Unlock()
		return p + int64(atomic.LoadInt32(&accepted))
	}
	done := func() bool {
		for i, cs := range clis {
			if atomic.LoadInt32(&cs.wdone) == 0 || atomic.LoadInt32(&cs.rdone) == 0 {
				return false
			}
			mu.Lock()
			st := byIdx[i]
			mu.Unlock()
			if cs.werr == nil && (st == nil || int(atomic.LoadInt64(&st.sr.got)) < s.Conns[i].Total || atomic.LoadInt32(&st.backOK) == 0) {
				return false
			}
		}
		return true
	}
	if !waitProgress(done, progress) {
		return "stall", fmt.Sprintf("no byte of progress for %v: delivery stopped (progress %d)\n%s", e3StallBound, progress(), goroutineDump())
	}
	for i, cs := range clis {
		c := s.Conns[i]
		if cs.werr != nil {
			return "write-error", fmt.Sprintf("conn %d: client write failed: %v", i, cs.werr)
		}
		if cs.rerr != nil {
			return "read-error", fmt.Sprintf("conn %d: client read failed after %d of %d bytes: %v", i, cs.sr.got, c.Back, cs.rerr)
		}
		if cs.sr.bad != "" {
			return "client-stream", fmt.Sprintf("conn %d (server->client): %s", i, cs.sr.bad)
		}
		st := byIdx[i]
		if st.sr.bad != "" {
			return "server-stream", fmt.Sprintf("conn %d (client->server): %s", i, st.sr.bad)
		}
		if e, _ := st.werr.Load().(string); e != "" {
			return "server-write-error", fmt.Sprintf("conn %d: server write failed: %s", i, e)
		}
		if int(st.sr.got) != c.Total || int(cs.sr.got) != c.Back {
			return "count", fmt.Sprintf("conn %d: server got %d of %d, client got %d of %d", i, st.sr.got, c.Total, cs.sr.got, c.Back)
		}
	}
	// data-before-EOF: the clients close; the servers must not have lost anything (already counted) and see EOF
	for _, cs := range clis {
		cs.conn.Close()
	}
	return "", ""
}

func liveNontrivial(s liveScn) bool {
	for _, c := range s.Conns {
		snd := c.SndBuf
		if snd == 0 {
			snd = 200000
		}
		if c.Total >= 4*snd || c.Back >= 4*snd || c.Total > 65536 {
			return true
		}
	}
	return false
}

func liveTest(t *testing.T, prop, slot string, checks func() int) {
	st := newStats(prop)
	defer st.write()
	if vReplay != "" {
		var rec struct {
			Scenario liveScn `json:"scenario"`
		}
		if err := vLoadReplay(&rec); err != nil {
			t.Fatalf("replay: %v", err)
		}
		st.eval()
		for i := 0; i < 20; i++ {
			if sig, msg := runLive(rec.Scenario); sig != "" {
				vReport(vViolation{Property: prop, Slot: "replay:" + prop, Signature: sig, Message: msg, Replay: map[string]interface{}{"scenario": rec.Scenario}})
				t.Fatalf("%s violated [%s] (attempt %d): %s", prop, sig, i+1, msg)
			}
		}
		return
	}
	big := vTier == "thorough"
	rapid.Check(t, func(t *rapid.T) {
		s := genLiveScn(t, big)
		sig, msg := runLive(s)
		st.eval()
		if sig != "" {
			// a failure under real threads may not reproduce every time: state the rate
			fails := 1
			for i := 0; i < 9; i++ {
				if s2, _ := runLive(s); s2 != "" {
					fails++
				}
			}
			msg = fmt.Sprintf("%s (reproduced %d/10 times)", msg, fails)
			vReport(vViolation{Property: prop, Slot: slot, Signature: sig, Message: msg, Replay: map[string]interface{}{"scenario": s}})
			t.Fatalf("%s violated [%s]: %s", prop, sig, msg)
		}
		st.class("net-" + s.Network)
		if liveNontrivial(s) {
			st.class("nontrivial")
			if st.nontrivial(fmt.Sprintf("%+v", s)) {
				st.sample(s)
			}
		}
	})
}

func TestVerifC04Live(t *testing.T) { liveTest(t, "C04", "rapid:C04live", nil) }

var _ = syscall.SOL_SOCKET
