//go:build go1.18

// E2 scenario "poll" (C11): harness FDOperators with recording callbacks on a real defaultPoll whose
// Wait loop is an actor; peers write / shut down / close / close with unread data.
package netpoll

import (
	"fmt"
	"syscall"
	"testing"

	vs "github.com/cloudwego/netpoll/internal/verifsched"
	"pgregory.net/rapid"
)

type pollDesc11 struct {
	InBuf    int       `json:"inbuf"` // size of the buffer handed out by Inputs
	Out      int       `json:"out"`   // bytes to send through Outputs/OutputAck
	Peer     []peerAct `json:"peer"`
	Detach   bool      `json:"detach,omitempty"`   // the user detaches the operator at some point
	Unread   bool      `json:"unread,omitempty"`   // our side never reads what the peer sent (reset on peer close)
	Writable bool      `json:"writable,omitempty"` // registered with PollWritable (edge triggered, as the dialer does): OnWrite/OnHup only
}

type pollScn struct {
	Descs   []pollDesc11 `json:"descs"`
	Trigger bool         `json:"trigger,omitempty"`
	Fill    int          `json:"fill,omitempty"` // idle descriptors registered in addition (event array growth)
	// Early: one entry per additional actor that calls Trigger that many times while the loop is
	// busy with everything else (coalesced wake-ups); the final Trigger must still wake the loop.
	Early []int `json:"early,omitempty"`
}

type pollRec struct {
	fd, peer  int
	op        *FDOperator
	got       []byte
	sent      int // bytes the peer wrote
	peerEnded bool
	hups      int
	hupDet    int32
	afterDet  int // callbacks after the user's detach returned
	detached  bool
	detBatch  int
	out       []byte
	outSent   int
	peerGot   []byte
	inputsN   int
	order     []string
	writes    int
}

type pollOutcome struct {
	w         *e2World
	recs      []*pollRec
	parked    []string
	livelock  bool
	loopDone  bool
	trigOK    bool
	batchMax  int
	earlyExit []string
}

func runPoll(t *rapid.T, s pollScn, replay []vs.Step) *pollOutcome {
	w := newE2World(t, 1, replay)
	o := &pollOutcome{w: w}
	p := w.polls[0]
	// A batch that epoll_wait had already returned when Control(PollDetach) came back may still be
	// dispatched (epoll cannot take it back); only callbacks from a batch fetched afterwards count.
	batch := 0
	pWait := e2PointID("poll_default_linux.go", "EpollWait(p.fd, p.events, msec)")
	w.stepHook = func(step int, a *vs.Actor) {
		if a.Name == "poller0" && a.Point() == pWait {
			batch++
		}
	}
	late := func(r *pollRec) bool { return r.detached && batch > r.detBatch }
	mk := func(d pollDesc11, idx int) *pollRec {
		a, b := w.socketpair()
		syscall.SetNonblock(a, true)
		syscall.SetNonblock(b, true)
		if d.Out > 0 {
			setSndBuf(a, 2048)
			setRcvBuf(b, 2048)
		}
		r := &pollRec{fd: a, peer: b}
		op := p.Alloc()
		op.FD = a
		buf := make([]byte, d.InBuf)
		if !d.Unread {
			op.Inputs = func(v [][]byte) [][]byte {
				r.inputsN++
				if late(r) {
					r.afterDet++
				}
				v[0] = buf
				return v[:1]
			}
			op.InputAck = func(n int) error {
				if late(r) {
					r.afterDet++
				}
				if n > 0 {
					r.got = append(r.got, buf[:n]...)
					r.order = append(r.order, "in")
					w.ev(fmt.Sprintf("d%d:in", idx))
				}
				return nil
			}
		} else {
			op.Inputs = func(v [][]byte) [][]byte { return v[:0] }
			op.InputAck = func(n int) error { return nil }
		}
		op.OnHup = func(Poll) error {
			r.hups++
			r.hupDet = op.detached
			// (OnHup runs on the hang-up goroutine, after the batch that queued it: not judged against detach)
			r.order = append(r.order, "hup")
			w.ev(fmt.Sprintf("d%d:hup", idx))
			return nil
		}
		if d.Out > 0 {
			r.out = keyedBytes(1<<24+idx*(1<<16), d.Out)
			op.Outputs = func(v [][]byte) ([][]byte, bool) {
				if late(r) {
					r.afterDet++
				}
				if r.outSent >= len(r.out) {
					op.Control(PollRW2R)
					return nil, false
				}
				v[0] = r.out[r.outSent:]
				return v[:1], false
			}
			op.OutputAck = func(n int) error {
				if n > 0 {
					r.outSent += n
					w.ev(fmt.Sprintf("d%d:out", idx))
				}
				if r.outSent >= len(r.out) {
					op.Control(PollRW2R)
				}
				return nil
			}
		}
		if d.Writable {
			op.Inputs, op.InputAck, op.Outputs, op.OutputAck = nil, nil, nil, nil
			op.OnWrite = func(Poll) error {
				r.writes++
				w.ev(fmt.Sprintf("d%d:onwrite", idx))
				return nil
			}
		}
		r.op = op
		return r
	}
	for i, d := range s.Descs {
		o.recs = append(o.recs, mk(d, i))
	}
	var fills []*pollRec
	for i := 0; i < s.Fill; i++ {
		fills = append(fills, mk(pollDesc11{InBuf: 8}, 1000+i))
	}
	// registration by a user actor (Control is a schedule point)
	w.s.Go("user", false, func() {
		for i, r := range o.recs {
			if s.Descs[i].Writable {
				r.op.Control(PollWritable)
				continue
			}
			r.op.Control(PollReadable)
			if s.Descs[i].Out > 0 {
				r.op.Control(PollR2RW)
			}
		}
		for _, r := range fills {
			r.op.Control(PollReadable)
		}
		// every filler becomes readable at once: one batch larger than the initial event array
		for _, r := range fills {
			syscall.Write(r.peer, []byte("x"))
		}
		for i, d := range s.Descs {
			if d.Detach {
				vs.Yield(-90)
				vs.Yield(-90)
				o.recs[i].op.Control(PollDetach)
				o.recs[i].detBatch = batch
				o.recs[i].detached = true
				w.ev(fmt.Sprintf("d%d:detached", i))
			}
		}
	})
	for i, d := range s.Descs {
		i, d := i, d
		r := o.recs[i]
		w.s.Go(fmt.Sprintf("peer%d", i), false, func() {
			rd := make([]byte, 4096)
			for _, a := range d.Peer {
				vs.Yield(-91)
				switch a.Op {
				case "write":
					n, _ := syscall.Write(r.peer, keyedBytes(i*(1<<16)+r.sent, a.N))
					if n > 0 {
						r.sent += n
					}
				case "read":
					n, _ := syscall.Read(r.peer, rd[:min(a.N, len(rd))])
					if n > 0 {
						r.peerGot = append(r.peerGot, rd[:n]...)
					}
				case "shutwr":
					syscall.Shutdown(r.peer, syscall.SHUT_WR)
					r.peerEnded = true
					w.ev(fmt.Sprintf("d%d:peer-end", i))
				case "drain":
					// read until the whole output stream has arrived
					for len(r.peerGot) < d.Out {
						vs.WaitFor(-92, func() bool { return siocinq(r.peer) > 0 })
						n, _ := syscall.Read(r.peer, rd)
						if n > 0 {
							r.peerGot = append(r.peerGot, rd[:n]...)
						}
					}
				case "close":
					// take what our side has sent so far, then close
					for {
						n, _ := syscall.Read(r.peer, rd)
						if n <= 0 {
							break
						}
						r.peerGot = append(r.peerGot, rd[:n]...)
					}
					w.peerClose(r.peer)
					r.peerEnded = true
					w.ev(fmt.Sprintf("d%d:peer-end", i))
				}
			}
		})
	}
	for i, n := range s.Early {
		n := n
		w.s.Go(fmt.Sprintf("trig%d", i), false, func() {
			for j := 0; j < n; j++ {
				vs.Yield(-93)
				p.Trigger()
			}
		})
	}
	parked, livelock := w.run(120000)
	o.livelock = livelock
	for _, a := range parked {
		o.parked = append(o.parked, a.Name)
	}
	if livelock {
		return o
	}
	w.mu.Lock()
	o.earlyExit = append([]string(nil), w.pollExit...)
	w.mu.Unlock()
	// drain what the kernel still holds for the peers (output direction)
	for _, r := range o.recs {
		if w.fds[r.peer] {
			rd := make([]byte, 65536)
			for {
				n, _ := syscall.Read(r.peer, rd)
				if n <= 0 {
					break
				}
				r.peerGot = append(r.peerGot, rd[:n]...)
			}
		}
	}
	if s.Trigger {
		// Trigger wakes a parked loop: the loop must take at least one step and park again
		before := len(w.s.Trace)
		w.s.Go("trigger", false, func() { p.Trigger() })
		w.run(20000)
		for _, st := range w.s.Trace[before:] {
			if st.Actor == 0 {
				o.trigOK = true
			}
		}
	}
	// Close stops the loop and releases the poller's own descriptors
	w.s.Go("closer", false, func() { p.Close() })
	w.run(20000)
	for _, a := range w.s.Actors() {
		if a.Name == "poller0" && a.Done() {
			o.loopDone = true
		}
	}
	return o
}

func judgePoll(s pollScn, o *pollOutcome) (sig, msg string) {
	w := o.w
	logs := fmt.Sprint(w.names())
	if len(logs) > 1200 {
		logs = logs[:600] + " ... " + logs[len(logs)-600:]
	}
	if len(w.s.Crashes) > 0 {
		return "process-crash", "a panic escaped a goroutine netpoll starts itself: " + firstLine(w.s.Crashes[0])
	}
	if o.livelock {
		return "livelock", "the poller loop did not quiesce | events: " + logs
	}
	if len(o.parked) > 0 {
		return "parked", fmt.Sprintf("actors blocked at quiescence: %v", o.parked)
	}
	if len(o.earlyExit) > 0 {
		return "loop-exited", fmt.Sprintf("the Wait loop returned although nobody closed the poller: %v (epoll fd open: %v) | events: %s", o.earlyExit, fdOpen(w.polls[0].fd), logs)
	}
	for i, d := range s.Descs {
		r := o.recs[i]
		desc := fmt.Sprintf("descriptor %d (inbuf %d, out %d, detach %v, unread %v)", i, d.InBuf, d.Out, d.Detach, d.Unread)
		if r.afterDet > 0 {
			return "callback-after-detach", fmt.Sprintf("%s: %d callbacks fired from a batch fetched after Control(PollDetach) had returned | events: %s", desc, r.afterDet, logs)
		}
		if r.hups > 1 {
			return "hup-twice", fmt.Sprintf("%s: OnHup ran %d times | events: %s", desc, r.hups, logs)
		}
		if r.hups == 1 && r.hupDet < 1 {
			return "hup-before-detach", desc + ": OnHup ran before the descriptor was deregistered"
		}
		if d.Writable {
			// an edge-triggered registration sees the hang-up exactly once (it is never redelivered)
			if r.peerEnded && !d.Detach && r.hups != 1 {
				return "hup-missing", fmt.Sprintf("%s (PollWritable): the peer closed, OnHup ran %d times, OnWrite %d times | events: %s", desc, r.hups, r.writes, logs)
			}
			continue
		}
		if !d.Unread {
			exp := keyedBytes(i*(1<<16), len(r.got))
			if len(r.got) > r.sent || string(r.got) != string(exp) {
				return "input-stream", fmt.Sprintf("%s: the bytes given to InputAck (%d) are not a prefix of what the peer wrote (%d): first diff %d | events: %s", desc, len(r.got), r.sent, firstDiff(r.got, exp), logs)
			}
			if !d.Detach {
				if len(r.got) != r.sent {
					return "input-incomplete", fmt.Sprintf("%s: the peer wrote %d bytes, InputAck delivered %d at quiescence | %s | epfd open=%v readable=%v fd open=%v inq=%d | events: %s", desc, r.sent, len(r.got), w.s.Describe(), fdOpen(w.polls[0].fd), vsPollReadable(w.polls[0].fd), fdOpen(r.fd), siocinq(r.fd), logs)
				}
				// data before hang-up
				seenHup := false
				for _, e := range r.order {
					if e == "hup" {
						seenHup = true
					} else if seenHup {
						return "data-after-hup", desc + ": input was delivered after OnHup | events: " + logs
					}
				}
				if r.peerEnded && r.hups != 1 {
					return "hup-missing", fmt.Sprintf("%s: the peer ended the stream, OnHup ran %d times | %s | events: %s", desc, r.hups, w.s.Describe(), logs)
				}
				if !r.peerEnded && r.hups != 0 {
					return "hup-spurious", fmt.Sprintf("%s: OnHup ran although the peer neither closed nor shut down | events: %s", desc, logs)
				}
			}
		}
		if d.Out > 0 {
			exp := keyedBytes(1<<24+i*(1<<16), len(r.peerGot))
			if string(r.peerGot) != string(exp) {
				return "output-stream", fmt.Sprintf("%s: the peer received %d bytes that differ from the output stream at %d", desc, len(r.peerGot), firstDiff(r.peerGot, exp))
			}
			if !r.peerEnded && !d.Detach && r.outSent != len(r.peerGot) {
				return "output-count", fmt.Sprintf("%s: OutputAck acknowledged %d bytes, the peer received %d", desc, r.outSent, len(r.peerGot))
			}
			if !r.peerEnded && !d.Detach && r.outSent != d.Out {
				return "output-incomplete", fmt.Sprintf("%s: %d of %d output bytes were sent although the peer was reading | events: %s", desc, r.outSent, d.Out, logs)
			}
		}
	}
	if s.Trigger && !o.trigOK {
		return "trigger-no-wakeup", "Trigger did not wake the parked poller loop"
	}
	if !o.loopDone {
		return "close-loop-running", "the Wait loop did not return after Close"
	}
	p := w.polls[0]
	w.mu.Lock()
	c1, c2 := w.closes[p.fd], w.closes[p.wop.FD]
	bad := append([]string(nil), w.badClose...)
	w.mu.Unlock()
	if c1 != 1 || c2 != 1 {
		return "close-descriptors", fmt.Sprintf("after Close the poller closed its epoll descriptor %d times and its wake-up descriptor %d times", c1, c2)
	}
	if len(bad) > 0 {
		return "close-not-open", bad[0]
	}
	return "", ""
}

func genPollScn(t *rapid.T) pollScn {
	s := pollScn{Trigger: rapid.Bool().Draw(t, "trigger")}
	if rapid.IntRange(0, 2).Draw(t, "early") == 0 {
		for i, n := 0, rapid.IntRange(1, 3).Draw(t, "nearly"); i < n; i++ {
			s.Early = append(s.Early, rapid.IntRange(1, 3).Draw(t, "ntrig"))
		}
		s.Trigger = true
	}
	if rapid.IntRange(0, 19).Draw(t, "growth") == 0 {
		s.Fill = rapid.IntRange(120, 140).Draw(t, "fill")
	}
	for i, n := 0, rapid.IntRange(1, 5).Draw(t, "ndesc"); i < n; i++ {
		d := pollDesc11{InBuf: rapid.SampledFrom([]int{1, 3, 16, 64, 4096}).Draw(t, "inbuf")}
		if rapid.IntRange(0, 3).Draw(t, "hasout") == 0 {
			d.Out = rapid.IntRange(1, 12000).Draw(t, "out")
		}
		d.Detach = rapid.IntRange(0, 7).Draw(t, "detach") == 0
		if rapid.IntRange(0, 4).Draw(t, "writable") == 0 {
			d = pollDesc11{InBuf: 8, Writable: true}
			if rapid.IntRange(0, 3).Draw(t, "wclose") > 0 {
				d.Peer = []peerAct{{Op: "close"}}
			}
			s.Descs = append(s.Descs, d)
			continue
		}
		for j, m := 0, rapid.IntRange(0, 4).Draw(t, "nacts"); j < m; j++ {
			if d.Out > 0 && rapid.Bool().Draw(t, "rd") {
				d.Peer = append(d.Peer, peerAct{Op: "read", N: rapid.IntRange(1, 4096).Draw(t, "rn")})
			} else {
				d.Peer = append(d.Peer, peerAct{Op: "write", N: rapid.IntRange(1, 200).Draw(t, "wn")})
			}
		}
		switch rapid.IntRange(0, 3).Draw(t, "end") {
		case 1:
			d.Peer = append(d.Peer, peerAct{Op: "shutwr"})
		case 2, 3:
			d.Peer = append(d.Peer, peerAct{Op: "close"})
		}
		if d.Out > 0 && !d.Detach {
			// the peer finally reads everything unless it has closed
			ended := false
			for _, a := range d.Peer {
				if a.Op == "close" || a.Op == "shutwr" {
					ended = true // netpoll hangs the descriptor up at end-of-stream; no output is promised afterwards
				}
			}
			if !ended {
				d.Peer = append(d.Peer, peerAct{Op: "drain"})
			}
		}
		s.Descs = append(s.Descs, d)
	}
	return s
}

func TestVerifC11(t *testing.T) {
	st := newStats("C11")
	defer st.write()
	if vReplay != "" {
		var rec struct {
			Scenario  pollScn   `json:"scenario"`
			Decisions []vs.Step `json:"decisions"`
		}
		if err := vLoadReplay(&rec); err != nil {
			t.Fatalf("replay: %v", err)
		}
		o := runPoll(nil, rec.Scenario, rec.Decisions)
		defer o.w.close()
		st.eval()
		if sig, msg := judgePoll(rec.Scenario, o); sig != "" {
			vReport(vViolation{Property: "C11", Slot: "replay:C11", Signature: sig, Message: msg, Replay: e2Replay{Scenario: rec.Scenario, Decisions: o.w.trace()}})
			t.Fatalf("C11 violated [%s]: %s", sig, msg)
		}
		return
	}
	rapid.Check(t, func(t *rapid.T) {
		s := genPollScn(t)
		o := runPoll(t, s, nil)
		defer o.w.close()
		st.eval()
		e2TraceHash(st, o.w)
		if sig, msg := judgePoll(s, o); sig != "" && e2Confirmed(st, o.w, func(d []vs.Step) string {
			o2 := runPoll(nil, s, d)
			defer o2.w.close()
			s2, _ := judgePoll(s, o2)
			return s2
		}) {
			vReport(vViolation{Property: "C11", Slot: "rapid:C11", Signature: sig, Message: msg, Replay: e2Replay{Scenario: s, Strategy: o.w.strategy, Decisions: o.w.trace(), Events: o.w.names(), TraceTail: o.w.describeTrace(40)}})
			t.Fatalf("C11 violated [%s]: %s\nscenario: %+v\nlast steps:\n%s", sig, msg, s, o.w.describeTrace(30))
		}
		if s.Fill > 0 {
			st.class("event-array-growth")
		}
		if len(s.Early) > 0 {
			st.class("concurrent-triggers")
		}
		ends, both := 0, false
		for i, d := range s.Descs {
			r := o.recs[i]
			if r.peerEnded {
				ends++
				if r.sent > 0 && !d.Unread {
					both = true
				}
			}
			if d.Unread && r.peerEnded {
				st.class("reset-with-unread-data")
			}
			if d.Detach {
				st.class("user-detach")
			}
			if d.Out > 0 {
				st.class("output")
			}
			if d.Writable {
				st.class("pollwritable")
			}
		}
		st.classN("steps", int64(len(o.w.s.Trace)))
		if len(s.Descs) >= 2 && both {
			st.class("nontrivial")
			if st.nontrivial(fmt.Sprintf("%+v|%v", s, o.w.names())) {
				st.sample(map[string]interface{}{"scenario": s, "events": o.w.names()})
			}
		}
	})
}
