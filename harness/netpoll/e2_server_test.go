//go:build go1.18

// C13, tracking half (E2): the real server on a unix listener served by one poller while accepted
// connections go to another poller; clients connect, optionally write, close at scheduler-chosen moments.
package netpoll

import (
	"context"
	"fmt"
	"net"
	"os"
	"path/filepath"
	"syscall"
	"testing"
	"time"

	vs "github.com/cloudwego/netpoll/internal/verifsched"
	"pgregory.net/rapid"
)

type srvClient struct {
	Send  int  `json:"send"`  // bytes written after connecting (0: none)
	Close bool `json:"close"` // closes at the end of its script
}

type srvScn struct {
	Connect bool        `json:"connect"` // OnConnect configured
	Clients []srvClient `json:"clients"`
	// Shutdown: a user goroutine calls the server's Close (EventLoop.Shutdown) at a scheduler-chosen moment
	// while the clients connect, write and close
	Shutdown bool `json:"shutdown,omitempty"`
}

type srvOutcome struct {
	w        *e2World
	srv      *server
	prepared []*connection
	connects int
	parked   []string
	livelock bool
	stale    int
	missing  int
	noPrep   int
	accepted int
	shutRet  bool  // Close returned
	shutErr  error // what it returned
	active   int   // accepted connections still active at quiescence
}

var srvSeq int

func runSrv(t *rapid.T, s srvScn, replay []vs.Step) *srvOutcome {
	w := newE2World(t, 2, replay)
	o := &srvOutcome{w: w}
	srvSeq++
	path := filepath.Join(os.TempDir(), fmt.Sprintf("verif-e2-%d-%d.sock", os.Getpid(), srvSeq))
	os.Remove(path)
	nl, err := net.Listen("unix", path)
	if err != nil {
		vInfra("listen: %v", err)
	}
	ln, err := ConvertListener(nl)
	if err != nil {
		vInfra("ConvertListener: %v", err)
	}
	w.atClose = append(w.atClose, func() { ln.Close(); os.Remove(path) })
	opts := &options{}
	opts.onPrepare = func(conn Connection) context.Context {
		o.prepared = append(o.prepared, conn.(*connection))
		w.ev("prepare")
		return context.Background()
	}
	if s.Connect {
		opts.onConnect = func(ctx context.Context, conn Connection) context.Context {
			o.connects++
			w.ev("connect")
			return ctx
		}
	}
	opts.onRequest = func(ctx context.Context, conn Connection) error {
		conn.Reader().Skip(conn.Reader().Len())
		conn.Reader().Release()
		w.ev("request")
		return nil
	}
	srv := newServer(ln, opts, func(err error) {})
	o.srv = srv
	srv.Run()
	for i, c := range s.Clients {
		c := c
		w.s.Go(fmt.Sprintf("client%d", i), false, func() {
			fd, err := syscall.Socket(syscall.AF_UNIX, syscall.SOCK_STREAM, 0)
			if err != nil {
				vInfra("socket: %v", err)
			}
			w.fds[fd] = true
			vs.Yield(-100)
			if err := syscall.Connect(fd, &syscall.SockaddrUnix{Name: path}); err != nil {
				if s.Shutdown {
					w.ev("client-refused") // the listener is gone already
					return
				}
				vInfra("connect: %v", err)
			}
			w.ev("client-connected")
			if c.Send > 0 {
				vs.Yield(-100)
				syscall.Write(fd, keyedBytes(0, c.Send))
			}
			if c.Close {
				vs.Yield(-100)
				w.peerClose(fd)
				w.ev("client-closed")
			}
		})
	}
	if s.Shutdown {
		w.s.Go("shutdown", false, func() {
			vs.Yield(-102)
			w.ev("shutdown+")
			o.shutErr = srv.Close(context.Background())
			o.shutRet = true
			w.ev("shutdown-")
		})
	}
	parked, livelock := w.run(200000)
	// Close polls the connections every 50 ms while one of them is busy (a real timer): let real time pass
	// while it is parked there and go on, the world is quiescent otherwise
	for i := 0; i < 8 && s.Shutdown && !o.shutRet && !livelock; i++ {
		time.Sleep(60 * time.Millisecond)
		parked, livelock = w.run(200000)
	}
	o.livelock = livelock
	for _, a := range parked {
		o.parked = append(o.parked, a.Name)
	}
	for _, c := range o.prepared {
		if c.IsActive() {
			o.active++
		}
	}
	tracked := map[*connection]bool{}
	srv.connections.Range(func(k, v interface{}) bool {
		c := v.(*connection)
		tracked[c] = true
		if !c.IsActive() {
			o.stale++
		}
		return true
	})
	for _, c := range o.prepared {
		if c.IsActive() && !tracked[c] {
			o.missing++
		}
	}
	o.accepted = len(o.prepared)
	return o
}

func judgeSrv(s srvScn, o *srvOutcome) (sig, msg string) {
	w := o.w
	logs := fmt.Sprint(w.names())
	if len(w.s.Crashes) > 0 {
		return "process-crash", "a panic escaped a goroutine netpoll starts itself: " + firstLine(w.s.Crashes[0])
	}
	if o.livelock {
		return "livelock", "the schedule did not quiesce | events: " + logs
	}
	if len(o.parked) > 0 {
		return "parked", fmt.Sprintf("actors blocked at quiescence: %v | events: %s", o.parked, logs)
	}
	if o.stale > 0 {
		return "tracked-but-closed", fmt.Sprintf("%d closed connection(s) are still tracked by the server (isIdle is false for them for ever, Shutdown cannot return nil) | events: %s", o.stale, logs)
	}
	if o.missing > 0 {
		return "active-not-tracked", fmt.Sprintf("%d active accepted connection(s) are not tracked by the server | events: %s", o.missing, logs)
	}
	if s.Shutdown {
		if !o.shutRet {
			return "shutdown-hang", "the server's Close did not return although no handler blocks | events: " + logs
		}
		if o.shutErr == nil && o.active > 0 {
			return "nil-with-active", fmt.Sprintf("Shutdown returned nil, %d accepted connection(s) are still open and served | events: %s", o.active, logs)
		}
		return "", ""
	}
	if o.accepted != len(s.Clients) {
		return "not-accepted", fmt.Sprintf("%d clients connected, %d connections went through OnPrepare | events: %s", len(s.Clients), o.accepted, logs)
	}
	return "", ""
}

func TestVerifC13(t *testing.T) {
	st := newStats("C13")
	defer st.write()
	if vReplay != "" {
		var rec struct {
			Scenario  srvScn    `json:"scenario"`
			Decisions []vs.Step `json:"decisions"`
		}
		if err := vLoadReplay(&rec); err != nil {
			t.Fatalf("replay: %v", err)
		}
		o := runSrv(nil, rec.Scenario, rec.Decisions)
		defer o.w.close()
		st.eval()
		if sig, msg := judgeSrv(rec.Scenario, o); sig != "" {
			vReport(vViolation{Property: "C13", Slot: "replay:C13", Signature: sig, Message: msg, Replay: e2Replay{Scenario: rec.Scenario, Decisions: o.w.trace(), Events: o.w.names()}})
			t.Fatalf("C13 violated [%s]: %s", sig, msg)
		}
		return
	}
	rapid.Check(t, func(t *rapid.T) {
		s := srvScn{Connect: rapid.Bool().Draw(t, "connect"), Shutdown: rapid.IntRange(0, 2).Draw(t, "shutdown") == 0}
		for i, n := 0, rapid.IntRange(1, 3).Draw(t, "clients"); i < n; i++ {
			s.Clients = append(s.Clients, srvClient{Send: rapid.SampledFrom([]int{0, 0, 1, 20}).Draw(t, "send"), Close: rapid.IntRange(0, 3).Draw(t, "close") > 0})
		}
		o := runSrv(t, s, nil)
		defer o.w.close()
		st.eval()
		e2TraceHash(st, o.w)
		if sig, msg := judgeSrv(s, o); sig != "" && e2Confirmed(st, o.w, func(d []vs.Step) string {
			o2 := runSrv(nil, s, d)
			defer o2.w.close()
			s2, _ := judgeSrv(s, o2)
			return s2
		}) {
			vReport(vViolation{Property: "C13", Slot: "rapid:C13", Signature: sig, Message: msg, Replay: e2Replay{Scenario: s, Strategy: o.w.strategy, Decisions: o.w.trace(), Events: o.w.names(), TraceTail: o.w.describeTrace(40)}})
			t.Fatalf("C13 violated [%s]: %s\nscenario: %+v\nlast steps:\n%s", sig, msg, s, o.w.describeTrace(30))
		}
		st.classN("steps", int64(len(o.w.s.Trace)))
		// non-trivial: a client's close landed before its connection went through OnPrepare+tracking settled,
		// i.e. within a few steps of the accept
		evs := o.w.events()
		racing := false
		for _, a := range evs {
			if a.Name != "client-closed" {
				continue
			}
			for _, b := range evs {
				if b.Name == "prepare" && abs(a.Step-b.Step) <= 25 {
					racing = true
				}
			}
		}
		if s.Shutdown {
			st.class("shutdown-during-accepts")
			for _, a := range evs {
				for _, b := range evs {
					if a.Name == "shutdown+" && b.Name == "prepare" && abs(a.Step-b.Step) <= 40 {
						racing = true
					}
				}
			}
		}
		if racing {
			st.class("nontrivial")
			if st.nontrivial(fmt.Sprintf("%+v|%v", s, o.w.names())) {
				st.sample(map[string]interface{}{"scenario": s, "events": o.w.names()})
			}
		}
	})
}
