//go:build go1.18

package netpoll

import (
	"encoding/json"
	"fmt"
	"os"
	"strings"
	"sync"
	"sync/atomic"
	"syscall"
	"testing"
	"time"

	"pgregory.net/rapid"
)

// vExclusions lists the findings the generator must step around (status `known`
// in /verif/known_findings.json); passed by the driver, empty when everything is fixed.
func vExclusions() map[string]bool {
	m := map[string]bool{}
	for _, k := range strings.Split(os.Getenv("VERIF_EXCLUDE"), ",") {
		if k != "" {
			m[k] = true
		}
	}
	return m
}

var e1Caps = []int{8, 64, 512, 4096}

// genSize draws a boundary-biased size.
func e1GenSize(t *rapid.T, w *e1World, b *e1Buf, label string, maxv int) int {
	c := w.cap
	mode := rapid.IntRange(0, 99).Draw(t, label+"-mode")
	var n int
	switch {
	case mode < 45:
		cands := []int{0, 1, 2, 3, len(b.readable), len(b.readable) + 1, len(b.readable) - 1, c - 1, c, c + 1}
		if rl := b.readNodeLeft(); rl >= 0 {
			cands = append(cands, rl-1, rl, rl+1, rl+c)
		}
		if wf := b.writeNodeFree(); wf >= 0 {
			cands = append(cands, wf-1, wf, wf+1)
		}
		n = rapid.SampledFrom(cands).Draw(t, label)
	case mode < 70:
		n = rapid.IntRange(0, 3*c).Draw(t, label)
	case mode < 80:
		n = rapid.IntRange(0, len(b.readable)+2).Draw(t, label)
	case mode < 90:
		n = rapid.SampledFrom([]int{1023, 1024, 1025, 4095, 4096, 4097, 8191, 8192, 8193}).Draw(t, label)
	case mode < 97:
		n = rapid.IntRange(0, 20000).Draw(t, label)
	case mode < 99:
		n = rapid.IntRange(0, 70000).Draw(t, label)
	default:
		if w.budget > 20<<20 {
			n = rapid.SampledFrom([]int{mallocMax - 1, mallocMax, mallocMax + 1}).Draw(t, label)
		} else {
			n = rapid.SampledFrom([]int{-1, 0}).Draw(t, label)
		}
	}
	if n < -1 {
		n = 0
	}
	if maxv >= 0 && n > maxv {
		n = maxv
	}
	return n
}

type e1Choice struct {
	k string
	w int
}

func e1Pick(t *rapid.T, cs []e1Choice) string {
	var flat []string
	for _, c := range cs {
		for i := 0; i < c.w; i++ {
			flat = append(flat, c.k)
		}
	}
	return rapid.SampledFrom(flat).Draw(t, "kind")
}

var e1ReaderOps = []e1Choice{{"next", 6}, {"peek", 6}, {"skip", 3}, {"rbin", 2}, {"rstr", 1}, {"rbyte", 2}, {"until", 2}, {"slice", 4}, {"release", 5}, {"len", 1}}

// e1GenOp draws the next operation given the current state of the world. Only
// operations inside the documented contract (DESIGN §3.1) are produced.
func e1GenOp(t *rapid.T, w *e1World) (e1Op, bool) {
	lives := w.live(-1)
	roots := 0
	for _, b := range lives {
		if b.mode != e1Child {
			roots++
		}
	}
	if roots == 0 || (roots < 3 && len(lives) < 6 && rapid.IntRange(0, 99).Draw(t, "mknew") < 6) {
		size := rapid.SampledFrom([]int{-1, 0, 1, w.cap - 1, w.cap, w.cap + 1, 4095, 4096, 4097, 8191, 8192, 8193, 20000}).Draw(t, "size")
		mode := rapid.SampledFrom([]int{e1Writer, e1Writer, e1Writer, e1Input}).Draw(t, "bufmode")
		return e1Op{K: "new", N: size, M: mode}, true
	}
	b := lives[rapid.IntRange(0, len(lives)-1).Draw(t, "buf")]
	op := e1Op{B: b.id}
	var cs []e1Choice
	switch b.mode {
	case e1Child:
		cs = append(cs, e1ReaderOps...)
	case e1Input:
		cs = append(cs, e1ReaderOps...)
		cs = append(cs, e1Choice{"book", 14}, e1Choice{"crelease", 5}, e1Choice{"readcopy", 4}, e1Choice{"close", 1})
	default:
		switch {
		case b.appendWin:
			cs = []e1Choice{{"malloc", 3}, {"wbin", 2}, {"wstr", 1}, {"wbyte", 1}, {"append", 2}, {"flush", 5}}
		case b.directWin:
			cs = append(cs, e1ReaderOps...)
			cs = append(cs, e1Choice{"malloc", 6}, e1Choice{"wbyte", 2}, e1Choice{"ack", 3}, e1Choice{"direct", 5}, e1Choice{"flush", 8})
		default:
			cs = append(cs, e1ReaderOps...)
			cs = append(cs, e1Choice{"malloc", 8}, e1Choice{"wbin", 4}, e1Choice{"wstr", 2}, e1Choice{"wbyte", 2}, e1Choice{"ack", 4},
				e1Choice{"flush", 9}, e1Choice{"append", 2}, e1Choice{"readcopy", 2}, e1Choice{"bytes", 1}, e1Choice{"getbytes", 2}, e1Choice{"close", 1})
			if !b.binWin {
				cs = append(cs, e1Choice{"direct", 4})
			}
		}
	}
	op.K = e1Pick(t, cs)
	switch op.K {
	case "malloc":
		op.N = e1GenSize(t, w, b, "n", w.budget)
	case "wbin", "wstr":
		op.N = e1GenSize(t, w, b, "n", w.budget)
		if op.N < 0 {
			op.N = 0
		}
		// capacity of the caller's slice: exact, next power of two, or odd slack
		switch rapid.IntRange(0, 2).Draw(t, "capkind") {
		case 1:
			c := 1
			for c < op.N {
				c <<= 1
			}
			op.X = c - op.N
		case 2:
			op.X = rapid.IntRange(1, 7).Draw(t, "slack")
		}
	case "direct":
		// insertion offset must not precede the end of the last caller-owned region (left-to-right use)
		op.N = e1GenSize(t, w, b, "n", w.budget)
		if op.N < 0 {
			op.N = 0
		}
		maxRemain := len(b.pending) - b.callerEnd
		if w.fl["direct"] && b.directWin && maxRemain > 0 && b.callerEnd > 0 {
			maxRemain-- // strictly after the previous insertion unless appending at the end
		}
		if maxRemain < 0 {
			maxRemain = 0
		}
		op.M = rapid.OneOf(rapid.Just(0), rapid.IntRange(0, maxRemain), rapid.Just(maxRemain)).Draw(t, "remain")
		if rapid.IntRange(0, 3).Draw(t, "capkind") == 0 {
			c := 1
			for c < op.N {
				c <<= 1
			}
			op.X = c - op.N
		}
	case "ack":
		lo := 0
		if w.excl["F1"] && len(b.pending) > 0 {
			lo = 1
			w.fl["excluded-ack0"] = true
		}
		if len(b.pending) < lo {
			lo = len(b.pending)
		}
		op.N = rapid.OneOf(rapid.IntRange(lo, len(b.pending)), rapid.Just(lo), rapid.Just(len(b.pending))).Draw(t, "n")
	case "append":
		var donors []int
		for _, d := range w.live(e1Writer) {
			if d != b && !d.appendWin && !d.directWin {
				donors = append(donors, d.id)
			}
		}
		if len(donors) == 0 || rapid.IntRange(0, 2).Draw(t, "freshdonor") == 0 {
			// a donor is usually a freshly written buffer (mux.ShardQueue style)
			return e1Op{K: "new", N: rapid.SampledFrom([]int{-1, 0, w.cap, 4096}).Draw(t, "size"), M: e1Writer}, true
		}
		op.X = rapid.SampledFrom(donors).Draw(t, "donor")
	case "book":
		op.N = rapid.SampledFrom([]int{1, 2, w.cap - 1, w.cap, w.cap + 1, 4096, 8192, 8193, 16384, 65536}).Draw(t, "booksize")
		if op.N < 1 {
			op.N = 1
		}
		op.M = rapid.SampledFrom([]int{1, w.cap, 4096, 8192, 8193, 16384, 100000}).Draw(t, "maxsize")
		op.X = rapid.OneOf(rapid.Just(op.N), rapid.IntRange(0, op.N), rapid.Just(0), rapid.Just(1)).Draw(t, "acked")
		if op.X > w.budget {
			op.X = 0
		}
	case "crelease":
		op.M = rapid.SampledFrom([]int{0, 4096, 8192, 8193, 100000}).Draw(t, "maxsize")
	case "next", "peek", "skip", "rbin", "rstr", "slice":
		op.N = e1GenSize(t, w, b, "n", -1)
		if op.K == "peek" && w.excl["F2"] && b.peekMulti {
			// F2: a larger multi-node Peek frees the block behind the previous result
			if op.N > len(b.readable) {
				op.N = len(b.readable)
			}
			w.fl["excluded-peek-grow"] = true
			if c := cap(b.lb.cachePeek); c > 0 && op.N > c {
				op.N = c
			}
		}
		if op.K == "slice" && b.depth >= 3 {
			op.K = "next"
		}
	case "until":
		if len(b.readable) > 0 && rapid.IntRange(0, 3).Draw(t, "present") > 0 {
			idx := rapid.OneOf(rapid.IntRange(0, len(b.readable)-1), rapid.Just(len(b.readable)-1), rapid.Just(0)).Draw(t, "idx")
			op.X = int(b.readable[idx])
		} else {
			op.X = rapid.IntRange(0, 255).Draw(t, "delim")
		}
	case "readcopy":
		op.N = e1GenSize(t, w, b, "n", 1<<20)
		if op.N < 0 {
			op.N = 0
		}
	case "getbytes":
		op.N = rapid.SampledFrom([]int{0, 1, 2, 3, 32}).Draw(t, "vecs")
	}
	return op, true
}

type e1Summary struct {
	Cap   int      `json:"cap"`
	Ops   []string `json:"ops"`
	Flags []string `json:"flags"`
}

func e1Summarize(w *e1World, ops []e1Op) e1Summary {
	s := e1Summary{Cap: w.cap}
	for _, o := range ops {
		s.Ops = append(s.Ops, o.String())
	}
	for k, v := range w.fl {
		if v {
			s.Flags = append(s.Flags, k)
		}
	}
	return s
}

// e1Property is the rapid property shared by C01, C02 and C03; prop selects the oracles that report.
func e1Property(prop string, st *vStats) func(t *rapid.T) {
	excl := vExclusions()
	return func(t *rapid.T) {
		capv := rapid.SampledFrom(e1Caps).Draw(t, "cap")
		saved := LinkBufferCap
		w := newE1World(prop, capv, excl)
		defer func() { LinkBufferCap = saved }()
		if rapid.IntRange(0, 99).Draw(t, "huge") == 0 {
			w.budget = 64 << 20
		}
		var ops []e1Op
		t.Repeat(map[string]func(*rapid.T){
			"step": func(t *rapid.T) {
				if w.stopped() {
					return // the case ended on an oracle of another property; remaining steps are no-ops
				}
				op, ok := e1GenOp(t, w)
				if !ok {
					t.Skip("no operation enabled")
				}
				ops = append(ops, op)
				e1WatchMu.Lock()
				e1WatchOps, e1WatchCap = ops, w.cap
				e1WatchMu.Unlock()
				atomic.AddInt64(&e1WatchTick, 1)
				w.stepOp(op)
				if w.viol != nil {
					e1Fail(t, prop, w, ops)
				}
			},
		})
		atomic.AddInt64(&e1WatchTick, 1)
		w.finish()
		atomic.StoreInt64(&e1WatchTick, 0)
		st.eval()
		if w.viol != nil {
			e1Fail(t, prop, w, ops)
		}
		if w.other {
			st.class("ended-by-other-property-oracle")
			return
		}
		for k, v := range w.fl {
			if v {
				st.class(k)
			}
		}
		st.classN("ops", int64(len(ops)))
		if w.nontrivial() {
			if st.nontrivial(w.canon(ops)) {
				st.sample(e1Summarize(w, ops))
			}
		}
	}
}

func e1Fail(t *rapid.T, prop string, w *e1World, ops []e1Op) {
	c := e1Case{Prop: prop, Cap: w.cap, Ops: append([]e1Op(nil), ops...)}
	vReport(vViolation{Property: w.viol.Prop, Slot: "rapid:" + prop, Signature: w.viol.Sig, Message: w.viol.Msg, Replay: c})
	var sb strings.Builder
	for _, o := range ops {
		sb.WriteString(o.String())
		sb.WriteByte(' ')
	}
	t.Fatalf("%s violated [%s]: %s\n  cap=%d ops: %s", w.viol.Prop, w.viol.Sig, w.viol.Msg, w.cap, sb.String())
}

// e1Watch reports an operation that does not terminate (a corrupted node chain can make a LinkBuffer
// loop for ever): the case so far is written out as a violation and the process exits.
var (
	e1WatchMu   sync.Mutex
	e1WatchOps  []e1Op
	e1WatchCap  int
	e1WatchTick int64
)

func e1CPU() time.Duration {
	var ru syscall.Rusage
	if syscall.Getrusage(syscall.RUSAGE_SELF, &ru) != nil {
		return 0
	}
	return time.Duration(ru.Utime.Nano() + ru.Stime.Nano())
}

// The criterion is processor time, not wall-clock time: an operation is reported when the process has
// burnt 30 s of CPU while the operation counter stood still. (A wall-clock bound of 40 s fired twice on a
// machine that was oversubscribed about sevenfold and short of memory; neither case reproduced.)
func e1WatchStart(prop string) {
	go func() {
		last, lastCPU := int64(-1), e1CPU()
		for {
			time.Sleep(time.Second)
			tk := atomic.LoadInt64(&e1WatchTick)
			if tk != last {
				last, lastCPU = tk, e1CPU()
				continue
			}
			if burnt := e1CPU() - lastCPU; tk > 0 && burnt > 30*time.Second {
				e1WatchMu.Lock()
				c := e1Case{Prop: prop, Cap: e1WatchCap, Ops: append([]e1Op(nil), e1WatchOps...)}
				e1WatchMu.Unlock()
				vReport(vViolation{Property: prop, Slot: "hang:" + prop, Signature: "operation-does-not-terminate", Message: fmt.Sprintf("an operation used %v of processor time without returning (the last of %d operations of the case)", burnt.Round(time.Second), len(c.Ops)), Replay: c})
				fmt.Println("operation does not terminate; case written to violations.json")
				os.Exit(1)
			}
		}
	}()
}

func e1Test(t *testing.T, prop string) {
	st := newStats(prop)
	defer st.write()
	e1WatchStart(prop)
	if vReplay != "" {
		var c e1Case
		if err := vLoadReplay(&c); err != nil {
			t.Fatalf("replay: %v", err)
		}
		c.Prop = prop
		st.eval()
		if _, v := e1RunCase(c, nil); v != nil {
			vReport(vViolation{Property: v.Prop, Slot: "replay:" + prop, Signature: v.Sig, Message: v.Msg, Replay: c})
			t.Fatalf("%s violated [%s]: %s", v.Prop, v.Sig, v.Msg)
		}
		return
	}
	e1Regress(t, prop, st)
	rapid.Check(t, e1Property(prop, st))
}

// e1Regress runs the saved regression cases (confirmed findings and shrunk mutant cases).
func e1Regress(t *testing.T, prop string, st *vStats) {
	dir := os.Getenv("VERIF_REGRESS")
	if dir == "" {
		return
	}
	ents, _ := os.ReadDir(dir)
	for _, e := range ents {
		if !strings.HasPrefix(e.Name(), prop+"-") || !strings.HasSuffix(e.Name(), ".json") {
			continue
		}
		b, err := os.ReadFile(dir + "/" + e.Name())
		if err != nil {
			continue
		}
		var rec struct {
			Replay   e1Case `json:"replay"`
			KnownKey string `json:"known_key"`
			What     string `json:"what"`
		}
		if json.Unmarshal(b, &rec) != nil || len(rec.Replay.Ops) == 0 {
			continue
		}
		rec.Replay.Prop = prop
		st.eval()
		st.class("regress")
		_, v := e1RunCase(rec.Replay, nil)
		if v == nil {
			continue
		}
		if rec.KnownKey != "" && vExclusions()[rec.KnownKey] {
			vKnown(prop, rec.KnownKey, fmt.Sprintf("%s [%s] %s", rec.What, v.Sig, v.Msg))
			continue
		}
		vReport(vViolation{Property: v.Prop, Slot: "regress:" + e.Name(), Signature: v.Sig, Message: v.Msg, Replay: rec.Replay})
		t.Errorf("regression case %s: %s violated [%s]: %s", e.Name(), v.Prop, v.Sig, v.Msg)
	}
}

// Coverage-guided variant (thorough tier only): the same property, its draws decoded from the fuzzer's bytes
// by rapid.MakeFuzz. A failing worker writes the concrete case through vReport exactly as the rapid run does
// (that JSON, not the fuzzer's byte string, is the replay unit); Go's fuzzer minimises, saves its input under
// ./testdata/fuzz (the shard directory) and exits non-zero.
func e1Fuzz(f *testing.F, prop string) {
	st := newStats(prop + "-fuzzworker")
	// Starting corpus: rapid decodes the input as a stream of 64-bit words, one per draw, so any long enough
	// byte string is a valid program; an empty corpus leaves the fuzzer stuck in inputs that end after a
	// few draws. 48 fixed pseudo-random strings of 1-4 KiB (xorshift, constants only - no clock, no RNG state).
	x := uint64(0x9E3779B97F4A7C15)
	for i := 0; i < 48; i++ {
		b := make([]byte, 1024*(1+i%4))
		for j := 0; j+8 <= len(b); j += 8 {
			x ^= x << 13
			x ^= x >> 7
			x ^= x << 17
			v := x
			if j%16 == 8 {
				v >>= uint(x % 61) // small values too: rapid maps small words to the first alternatives
			}
			for k := 0; k < 8; k++ {
				b[j+k] = byte(v >> (8 * uint(k)))
			}
		}
		f.Add(b)
	}
	f.Fuzz(rapid.MakeFuzz(e1Property(prop, st)))
}

func FuzzVerifC01(f *testing.F) { e1Fuzz(f, "C01") }
func FuzzVerifC02(f *testing.F) { e1Fuzz(f, "C02") }
func FuzzVerifC03(f *testing.F) { e1Fuzz(f, "C03") }

func TestVerifC01(t *testing.T) { e1Test(t, "C01") }
func TestVerifC02(t *testing.T) { e1Test(t, "C02") }
func TestVerifC03(t *testing.T) { e1Test(t, "C03") }
