//go:build go1.18

// E2 scenario "conn": one server-side (or client-side) connection on a socketpair with generated
// callbacks, handler behaviour, peer script, closers, detach and an IsActive observer.
// Decides C05 (teardown exactly once), C06 (serial handling, no stranded input) and C09 (callback order).
package netpoll

import (
	"context"
	"fmt"
	"os"
	"strings"
	"syscall"
	"testing"

	vs "github.com/cloudwego/netpoll/internal/verifsched"
	"pgregory.net/rapid"
)

type peerAct struct {
	Op string `json:"op"` // write, close, shutwr
	N  int    `json:"n,omitempty"`
}

type connScn struct {
	Prop          string    `json:"prop"`
	Client        bool      `json:"client,omitempty"` // init with nil options; SetOnRequest later
	Prepare       bool      `json:"prepare,omitempty"`
	PrepareClose  bool      `json:"prepare_close,omitempty"`
	Connect       bool      `json:"connect,omitempty"`
	ConnectYields int       `json:"connect_yields,omitempty"`
	ConnectClose  bool      `json:"connect_close,omitempty"`
	ConnectRead   bool      `json:"connect_read,omitempty"`
	// ConnectSetsRequest: the server has no OnRequest option; OnConnect installs the handler with SetOnRequest
	ConnectSetsRequest bool `json:"connect_sets_request,omitempty"`
	Request       bool      `json:"request,omitempty"`
	Handler       string    `json:"handler,omitempty"` // all, k, lazy, close, panic, panic-late
	HandlerK      int       `json:"handler_k,omitempty"`
	HandlerYields int       `json:"handler_yields,omitempty"`
	Disconnect    bool      `json:"disconnect,omitempty"`
	// user Close inside the remaining callbacks: OnDisconnect, and a close callback
	DisconnectClose bool `json:"disconnect_close,omitempty"`
	CallbackClose   bool `json:"callback_close,omitempty"`
	NCallbacks    int       `json:"ncallbacks"`
	Peer          []peerAct `json:"peer"`
	Closers       int       `json:"closers,omitempty"`
	// EarlyClose: the closers have the connection from OnPrepare (the first moment user code sees it)
	// and may close it from their own goroutines from then on, i.e. also while netpoll registers it.
	EarlyClose bool   `json:"early_close,omitempty"`
	// RealAccept: the connection is created by the real server.onAccept (on a bare server value) instead of the
	// harness's mirror of it, so that a change to the accept path itself is executed
	RealAccept bool `json:"real_accept,omitempty"`
	Detach     bool   `json:"detach,omitempty"`
	// Sweeper: a goroutine doing what server.Close (Shutdown) does to every tracked connection: up to
	// Sweeper passes of "if conn.isIdle() { conn.Close() }"
	Sweeper    int    `json:"sweeper,omitempty"`
	Observer   bool   `json:"observer,omitempty"`
	LateSetReq bool   `json:"late_set_request,omitempty"`
	direct     string // fixed schedule of a known finding's reproducer
}

func genConnScn(t *rapid.T, prop string, excl map[string]bool) connScn {
	s := connScn{Prop: prop}
	s.NCallbacks = rapid.IntRange(1, 3).Draw(t, "ncb")
	s.CallbackClose = rapid.IntRange(0, 7).Draw(t, "callbackClose") == 0
	s.Client = rapid.IntRange(0, 5).Draw(t, "client") == 0
	if s.Client {
		s.LateSetReq = rapid.Bool().Draw(t, "lateSetReq")
		s.Request = s.LateSetReq
	} else {
		s.Prepare = rapid.IntRange(0, 2).Draw(t, "prepare") == 0
		if s.Prepare && (prop == "C09" || prop == "C05") {
			s.PrepareClose = rapid.IntRange(0, 9).Draw(t, "prepareClose") == 0
		}
		s.Connect = rapid.IntRange(0, 2).Draw(t, "connect") > 0
		if prop == "C09" {
			s.Connect = rapid.IntRange(0, 4).Draw(t, "connect9") > 0
		}
		if s.Connect {
			s.ConnectYields = rapid.IntRange(0, 4).Draw(t, "cyields")
			s.ConnectClose = rapid.IntRange(0, 7).Draw(t, "cclose") == 0
			s.ConnectRead = rapid.IntRange(0, 3).Draw(t, "cread") == 0
		}
		s.Request = rapid.IntRange(0, 5).Draw(t, "request") > 0
		s.Disconnect = rapid.IntRange(0, 2).Draw(t, "disconnect") > 0
		if s.Disconnect {
			s.DisconnectClose = rapid.IntRange(0, 5).Draw(t, "disconnectClose") == 0
		}
		if s.Connect && s.Request && !excl["F24"] {
			s.ConnectSetsRequest = rapid.IntRange(0, 5).Draw(t, "connectSetsRequest") == 0
		}
	}
	if s.Request {
		hs := []string{"all", "all", "all", "k", "k", "lazy", "close"}
		if prop == "C05" {
			hs = append(hs, "panic", "panic", "panic-late", "close")
		}
		s.Handler = rapid.SampledFrom(hs).Draw(t, "handler")
		s.HandlerK = rapid.IntRange(1, 9).Draw(t, "hk")
		s.HandlerYields = rapid.IntRange(0, 3).Draw(t, "hyields")
	}
	// peer script: some writes, then usually a close
	nw := rapid.IntRange(0, 5).Draw(t, "nwrites")
	for i := 0; i < nw; i++ {
		s.Peer = append(s.Peer, peerAct{Op: "write", N: rapid.IntRange(1, 40).Draw(t, "wlen")})
	}
	switch rapid.IntRange(0, 5).Draw(t, "peerEnd") {
	case 0:
	case 1:
		s.Peer = append(s.Peer, peerAct{Op: "shutwr"})
	default:
		s.Peer = append(s.Peer, peerAct{Op: "close"})
	}
	if prop == "C05" {
		s.Closers = rapid.IntRange(0, 3).Draw(t, "closers")
		s.Detach = rapid.IntRange(0, 7).Draw(t, "detach") == 0
		s.Observer = rapid.Bool().Draw(t, "observer")
		if !s.Client {
			s.Sweeper = rapid.SampledFrom([]int{0, 0, 0, 1, 2, 3}).Draw(t, "sweeper")
		}
		if !s.Client && (s.Closers > 0 || s.Detach) {
			s.EarlyClose = rapid.IntRange(0, 2).Draw(t, "earlyClose") == 0
		}
		if !s.Client {
			s.RealAccept = rapid.Bool().Draw(t, "realAccept")
		}
	} else if prop == "C09" {
		s.Closers = rapid.SampledFrom([]int{0, 0, 0, 1}).Draw(t, "closers")
		if !s.Client {
			s.RealAccept = rapid.IntRange(0, 2).Draw(t, "realAccept") == 0
		}
	} else {
		s.Closers = rapid.SampledFrom([]int{0, 0, 0, 0, 1}).Draw(t, "closers")
		if !s.Client {
			s.RealAccept = rapid.IntRange(0, 2).Draw(t, "realAccept") == 0
		}
	}
	return s
}

type connOutcome struct {
	w           *e2World
	c           *connection
	fd          int
	sent        int // bytes the peer wrote before closing
	consumed    int // bytes read by the handler / OnConnect
	inHandler   int
	maxHandler  int
	cbInHandler int
	activeSeq   []bool
	closePanics []string
	peerClosed  bool
	leftAtQuiet int
	statusQuiet int32
	parked1     []string
	livelock    bool
	opBase      int
	opEnd       int
	opProblem   string
	quietState  string
	pollerWon   bool
}

// runConn executes the scenario under the scheduler and returns what was observed.
func runConn(t *rapid.T, s connScn, replay []vs.Step) *connOutcome {
	w := newE2World(t, 1, replay)
	if s.direct == "F13" {
		w.directF13()
	} else if vExclusions()["F13"] {
		w.excludeF13()
	}
	o := &connOutcome{w: w}
	// "the poller closed the connection": the hang-up goroutine got past closeBy(poller) - its next step is triggerRead
	pTrig := e2PointIDFirst("connection_impl.go", "select {")
	prevHook := w.stepHook
	w.stepHook = func(step int, a *vs.Actor) {
		if prevHook != nil {
			prevHook(step, a)
		}
		if strings.HasPrefix(a.Name, "go@") && a.Point() == pTrig {
			o.pollerWon = true
		}
	}
	r, wfd := w.socketpair()
	o.fd = r
	o.opBase, _ = opCensus(w.polls[0])
	c := new(connection)
	o.c = c

	read := func(conn Connection, n int) {
		if n > conn.Reader().Len() {
			n = conn.Reader().Len()
		}
		if n <= 0 {
			return
		}
		p, err := conn.Reader().Next(n)
		if err == nil {
			o.consumed += len(p)
		}
		conn.Reader().Release()
	}
	calls := 0
	onRequest := func(ctx context.Context, conn Connection) error {
		o.inHandler++
		if o.inHandler > o.maxHandler {
			o.maxHandler = o.inHandler
		}
		w.ev("req+")
		calls++
		defer func() {
			w.ev("req-")
			o.inHandler--
		}()
		for i := 0; i < s.HandlerYields; i++ {
			vs.Yield(-11)
		}
		switch s.Handler {
		case "all":
			read(conn, conn.Reader().Len())
		case "k":
			read(conn, s.HandlerK)
		case "lazy":
			if calls > 1 {
				read(conn, conn.Reader().Len())
			}
		case "close":
			read(conn, s.HandlerK)
			conn.Close()
		case "panic":
			read(conn, s.HandlerK)
			panic("handler panic")
		case "panic-late":
			read(conn, conn.Reader().Len())
			for i := 0; i < 3; i++ {
				vs.Yield(-12)
			}
			panic("handler panic (late)")
		}
		vs.Yield(-13)
		return nil
	}
	opts := &options{}
	if !s.Client {
		if s.Request && !s.ConnectSetsRequest {
			opts.onRequest = onRequest
		}
		if s.Prepare {
			opts.onPrepare = func(conn Connection) context.Context {
				w.ev("prepare+")
				vs.Yield(-14)
				if s.PrepareClose {
					conn.Close()
				}
				w.ev("prepare-")
				return context.Background()
			}
		}
		if s.Connect {
			opts.onConnect = func(ctx context.Context, conn Connection) context.Context {
				w.ev("connect+")
				if s.ConnectSetsRequest {
					conn.SetOnRequest(onRequest)
				}
				for i := 0; i < s.ConnectYields; i++ {
					vs.Yield(-15)
				}
				if s.ConnectRead {
					read(conn, conn.Reader().Len())
				}
				if s.ConnectClose {
					conn.Close()
				}
				w.ev("connect-")
				return ctx
			}
		}
		if s.Disconnect {
			opts.onDisconnect = func(ctx context.Context, conn Connection) {
				w.ev("disconnect")
				if s.DisconnectClose {
					conn.Close()
				}
			}
		}
	}
	closeIt := func(who string) {
		defer func() {
			if p := recover(); p != nil {
				o.closePanics = append(o.closePanics, fmt.Sprintf("%s: %v", who, p))
				w.ev("close-panic")
			}
		}()
		c.Close()
	}
	accepted, prepared := false, false
	addCallbacks := func() {
		for i := 0; i < s.NCallbacks; i++ {
			i := i
			c.AddCloseCallback(func(Connection) error {
				if o.inHandler > 0 {
					o.cbInHandler++
				}
				w.ev(fmt.Sprintf("cb%d", i))
				if s.CallbackClose && i == 0 {
					c.Close()
				}
				return nil
			})
		}
	}
	if !s.Client {
		// user close callbacks are registered in OnPrepare, i.e. before the connection can receive events
		userPrepare := opts.onPrepare
		opts.onPrepare = func(conn Connection) context.Context {
			if s.RealAccept {
				c = conn.(*connection) // allocated by server.onAccept; nothing has used c before this moment
				o.c = c
			}
			addCallbacks()
			defer func() { prepared = true }()
			if userPrepare != nil {
				return userPrepare(conn)
			}
			return context.Background()
		}
	}
	w.s.Go("acceptor", false, func() {
		// mirrors server.onAccept: init, register the close callbacks, fire OnConnect
		defer func() {
			if p := recover(); p != nil {
				// server.onAccept runs on the poller's goroutine: nothing recovers there
				w.s.Crashes = append(w.s.Crashes, fmt.Sprintf("panic in connection.init/onConnect (accept path): %v", p))
			}
		}()
		var err error
		if s.RealAccept && !s.Client {
			srv := &server{opts: opts}
			srv.onAccept(&netFD{fd: r, network: "unix", remoteAddr: &UnixAddr{}, localAddr: &UnixAddr{}})
			accepted = true
			w.ev("registered")
			return
		}
		if s.Client {
			err = c.init(&netFD{fd: r, network: "unix", remoteAddr: &UnixAddr{}, localAddr: &UnixAddr{}}, nil)
		} else {
			err = c.init(&netFD{fd: r, network: "unix", remoteAddr: &UnixAddr{}, localAddr: &UnixAddr{}}, opts)
		}
		_ = err
		if s.Client {
			addCallbacks()
		}
		accepted = true
		w.ev("registered")
		if !c.IsActive() {
			return
		}
		if !s.Client {
			c.onConnect()
		} else if s.LateSetReq {
			vs.Yield(-16)
			w.ev("set-request")
			c.SetOnRequest(onRequest)
		}
	})
	w.s.Go("peer", false, func() {
		for _, a := range s.Peer {
			vs.Yield(-17)
			switch a.Op {
			case "write":
				n, _ := syscall.Write(wfd, keyedBytes(o.sent, a.N))
				if n > 0 {
					o.sent += n
				}
				w.ev("peer-write")
			case "shutwr":
				syscall.Shutdown(wfd, syscall.SHUT_WR)
				o.peerClosed = true
				w.ev("peer-close")
			case "close":
				w.peerClose(wfd)
				o.peerClosed = true
				w.ev("peer-close")
			}
		}
	})
	for i := 0; i < s.Closers; i++ {
		name := fmt.Sprintf("closer%d", i)
		w.s.Go(name, false, func() {
			vs.WaitFor(-18, func() bool { return accepted || (s.EarlyClose && prepared) })
			vs.Yield(-19)
			w.ev("user-close")
			closeIt(name)
		})
	}
	if s.Sweeper > 0 {
		w.s.Go("sweeper", false, func() {
			vs.WaitFor(-18, func() bool { return accepted })
			for i := 0; i < s.Sweeper; i++ {
				vs.Yield(-19)
				if c.isIdle() {
					w.ev("sweep-close")
					closeIt("sweeper")
					return
				}
				w.ev("sweep-busy")
			}
		})
	}
	if s.Detach {
		w.s.Go("detacher", false, func() {
			vs.WaitFor(-18, func() bool { return accepted || (s.EarlyClose && prepared) })
			vs.Yield(-19)
			w.ev("user-detach")
			func() {
				defer func() {
					if p := recover(); p != nil {
						o.closePanics = append(o.closePanics, fmt.Sprintf("detach: %v", p))
					}
				}()
				c.Detach()
			}()
		})
	}
	if s.Observer {
		w.s.Go("observer", false, func() {
			vs.WaitFor(-18, func() bool { return accepted })
			for i := 0; i < 12; i++ {
				a := c.IsActive()
				o.activeSeq = append(o.activeSeq, a)
				if !a && i > 8 {
					break
				}
				vs.Yield(-20)
			}
		})
	}
	parked, livelock := w.run(30000)
	o.livelock = livelock
	for _, a := range parked {
		o.parked1 = append(o.parked1, a.Name)
	}
	if !livelock {
		o.statusQuiet = c.status(closing)
		if c.inputBuffer != nil && o.statusQuiet != user {
			func() {
				defer func() { recover() }()
				o.leftAtQuiet = c.inputBuffer.Len()
			}()
		}
		w.ev("quiet")
		o.quietState = w.s.Describe()
		// final phase: the user closes (again); afterwards everything must have been torn down exactly once
		w.s.Go("lateclose", false, func() { closeIt("lateclose") })
		parked, livelock = w.run(30000)
		o.livelock = livelock
		for _, a := range parked {
			o.parked1 = append(o.parked1, a.Name+"(late)")
		}
	}
	o.opEnd, o.opProblem = opCensus(w.polls[0])
	return o
}

// judgeConn applies the oracles of prop to an outcome; returns signature and message of the first failure.
func judgeConn(s connScn, o *connOutcome) (sig, msg string) {
	w := o.w
	names := w.names()
	logs := strings.Join(names, " ")
	hasHandlers := s.Connect || s.Request
	panics := s.Handler == "panic" || s.Handler == "panic-late"
	if len(w.s.Crashes) > 0 {
		return "process-crash", "a panic escaped a goroutine netpoll starts itself (would kill the process): " + firstLine(w.s.Crashes[0]) + " | events: " + logs
	}
	if o.livelock {
		return "livelock", "the schedule did not quiesce within the step budget | events: " + logs
	}
	if len(o.parked1) > 0 {
		return "parked", fmt.Sprintf("actors still blocked at quiescence: %v | events: %s", o.parked1, logs)
	}
	switch s.Prop {
	case "C05":
		if len(o.closePanics) > 0 {
			return "close-panic", fmt.Sprintf("Close/Detach panicked: %v | events: %s", o.closePanics, logs)
		}
		for i := 0; i < s.NCallbacks; i++ {
			n := w.count(fmt.Sprintf("cb%d", i))
			if s.Client && s.LateSetReq && n == 0 && o.peerClosed {
				continue // registered after init on a connection the poller had already torn down
			}
			if n != 1 {
				return fmt.Sprintf("callbacks-%d-times", n), fmt.Sprintf("close callback %d ran %d times | events: %s", i, n, logs)
			}
		}
		for i := 0; i+1 < s.NCallbacks; i++ {
			if w.first(fmt.Sprintf("cb%d", i+1)) > w.first(fmt.Sprintf("cb%d", i)) {
				return "callback-order", "close callbacks did not run in reverse registration order | events: " + logs
			}
		}
		if o.cbInHandler > 0 {
			return "callback-during-handler", "a close callback ran while the request handler was executing | events: " + logs
		}
		w.mu.Lock()
		nclose := w.closes[o.fd]
		bad := append([]string(nil), w.badClose...)
		w.mu.Unlock()
		if len(bad) > 0 {
			return "close-not-open", bad[0] + " | events: " + logs
		}
		if s.Detach {
			if nclose > 1 {
				return "fd-closed-twice", fmt.Sprintf("descriptor closed %d times | events: %s", nclose, logs)
			}
			if s.Closers == 0 && s.Sweeper == 0 && !s.PrepareClose && !o.peerClosed && !hasHandlers && nclose != 0 && w.first("user-detach") >= 0 && w.first("user-detach") < w.first("quiet") {
				return "detached-fd-closed", "a detached connection's descriptor was closed | events: " + logs
			}
		} else if nclose != 1 {
			return fmt.Sprintf("fd-closed-%d-times", nclose), fmt.Sprintf("descriptor closed %d times | events: %s", nclose, logs)
		}
		if o.opProblem != "" {
			return "slot-census", o.opProblem + " | events: " + logs
		}
		if o.opEnd != o.opBase {
			return "slot-leak", fmt.Sprintf("poller slots in use: %d before, %d after teardown | events: %s", o.opBase, o.opEnd, logs)
		}
		seenFalse := false
		for _, a := range o.activeSeq {
			if !a {
				seenFalse = true
			} else if seenFalse {
				return "isactive-not-monotone", fmt.Sprintf("IsActive returned true after false: %v", o.activeSeq)
			}
		}
		if o.c.IsActive() {
			return "still-active", "connection still active after Close | events: " + logs
		}
	case "C06":
		// the handler contract starts once the connection is live with its handler: a connection torn down
		// before OnConnect was ever started (or before SetOnRequest on a client) never had one (cf. C09)
		handlerLive := s.Request && (!s.Connect || w.first("connect+") >= 0) && (!s.Client || w.first("set-request") >= 0)
		if !handlerLive {
			s.Request = false
		}
		if o.maxHandler > 1 {
			return "handler-overlap", fmt.Sprintf("%d OnRequest invocations in progress at once | events: %s", o.maxHandler, logs)
		}
		if s.Request && !panics && s.Handler != "close" && !s.ConnectClose && !s.PrepareClose && !(s.DisconnectClose && w.count("disconnect") > 0) && o.leftAtQuiet != 0 {
			return "stranded-input", fmt.Sprintf("%d bytes left unread at quiescence with no invocation in progress (sent %d, consumed %d, closing=%d) | events: %s", o.leftAtQuiet, o.sent, o.consumed, o.statusQuiet, logs)
		}
		if s.Request && o.peerClosed {
			lastReq, firstCb := -1, -1
			for i, n := range names {
				if n == "quiet" {
					break
				}
				if n == "req-" {
					lastReq = i
				}
				if strings.HasPrefix(n, "cb") && firstCb < 0 {
					firstCb = i
				}
			}
			if firstCb >= 0 && lastReq > firstCb {
				return "handler-after-callbacks", "OnRequest ran after the close callbacks | events: " + logs
			}
			if s.Closers == 0 && !panics && s.Handler != "close" && !s.ConnectClose && !s.PrepareClose && !(s.DisconnectClose && w.count("disconnect") > 0) && !s.Client && o.consumed != o.sent {
				return "input-not-offered", fmt.Sprintf("peer sent %d bytes before closing, handler consumed %d before the close callbacks | events: %s | at quiescence: %s", o.sent, o.consumed, logs, o.quietState)
			}
		}
	case "C09":
		idx := func(n string) int { return w.first(n) }
		if s.Prepare {
			pe := idx("prepare-")
			for _, n := range []string{"connect+", "req+", "disconnect"} {
				if i := idx(n); i >= 0 && (pe < 0 || i < pe) {
					return "before-prepare", n + " started before OnPrepare finished | events: " + logs
				}
			}
		}
		if s.Connect {
			ce := idx("connect-")
			if i := idx("req+"); i >= 0 && (ce < 0 || i < ce) {
				return "request-before-connect", "OnRequest started before OnConnect finished | events: " + logs
			}
			if i := idx("disconnect"); i >= 0 && (ce < 0 || i < ce) {
				return "disconnect-before-connect", "OnDisconnect ran before OnConnect finished | events: " + logs
			}
		}
		if n := w.count("disconnect"); n > 1 {
			return "disconnect-twice", fmt.Sprintf("OnDisconnect ran %d times | events: %s", n, logs)
		}
		firstCb := -1
		lastCbFinal := -1
		for i, n := range names {
			if strings.HasPrefix(n, "cb") {
				if firstCb < 0 {
					firstCb = i
				}
				lastCbFinal = i
			}
		}
		if d := idx("disconnect"); d >= 0 && firstCb >= 0 && d > firstCb {
			return "disconnect-after-callbacks", "OnDisconnect ran after a close callback | events: " + logs
		}
		if lastCbFinal >= 0 {
			for i := lastCbFinal + 1; i < len(names); i++ {
				switch names[i] {
				case "connect+", "req+", "disconnect", "prepare+":
					return "callback-after-close", names[i] + " started after the close callbacks | events: " + logs
				}
			}
		}
		// the poller closed the connection (its closeBy came first, whatever the user did afterwards):
		// OnDisconnect exactly once before the close callbacks, unless OnConnect was never started
		if s.Disconnect && o.pollerWon && !s.Client && !s.PrepareClose {
			started := !s.Connect || idx("connect+") >= 0
			if started && w.count("disconnect") != 1 {
				q := idx("quiet")
				d := idx("disconnect")
				if d < 0 || d > q {
					return "disconnect-lost", "the peer closed after OnConnect had started, but OnDisconnect did not run | events: " + logs
				}
			}
		}
	}
	return "", ""
}

func firstLine(s string) string {
	if i := strings.IndexByte(s, '\n'); i >= 0 {
		return s[:i]
	}
	return s
}

// connNontrivial implements the per-property non-trivial rules of DESIGN §5.
func connNontrivial(s connScn, o *connOutcome) bool {
	evs := o.w.events()
	near := func(a, b string, dist int) bool {
		for _, x := range evs {
			if x.Name != a && !strings.HasPrefix(x.Name, a) {
				continue
			}
			for _, y := range evs {
				if (y.Name == b || strings.HasPrefix(y.Name, b)) && abs(x.Step-y.Step) <= dist {
					return true
				}
			}
		}
		return false
	}
	switch s.Prop {
	case "C05":
		n := 0
		if near("sweep-close", "peer-close", 8) || near("sweep-close", "req-", 8) || near("sweep-close", "user-close", 8) {
			return true
		}
		if near("user-close", "peer-close", 8) {
			n++
		}
		if near("user-close", "req-", 8) || near("peer-close", "req-", 8) {
			n++
		}
		if near("user-close", "user-close", 8) && s.Closers > 1 {
			n++
		}
		if near("user-detach", "peer-close", 8) || near("task-panic", "peer-close", 10) {
			n++
		}
		return n >= 1
	case "C06":
		return o.w.count("req+") >= 1 && (near("peer-write", "req-", 6) || near("peer-close", "req-", 6) || s.LateSetReq)
	default:
		return o.peerClosed && (s.Connect || s.Prepare) && (near("peer-close", "connect", 8) || near("peer-close", "registered", 8) || near("peer-write", "connect", 8))
	}
}

func abs(a int) int {
	if a < 0 {
		return -a
	}
	return a
}

func connCanon(s connScn, o *connOutcome) string {
	return fmt.Sprintf("%+v|%s", s, strings.Join(o.w.names(), ","))
}

func connProperty(prop string, st *vStats) func(t *rapid.T) {
	excl := vExclusions()
	return func(t *rapid.T) {
		s := genConnScn(t, prop, excl)
		o := runConn(t, s, nil)
		defer o.w.close()
		st.eval()
		e2TraceHash(st, o.w)
		sig, msg := judgeConn(s, o)
		if sig != "" && e2Confirmed(st, o.w, func(d []vs.Step) string {
			o2 := runConn(nil, s, d)
			defer o2.w.close()
			s2, _ := judgeConn(s, o2)
			return s2
		}) {
			rep := e2Replay{Scenario: s, Strategy: o.w.strategy, Decisions: o.w.trace(), Events: o.w.names(), TraceTail: o.w.describeTrace(40)}
			vReport(vViolation{Property: prop, Slot: "rapid:" + prop, Signature: sig, Message: msg, Replay: rep})
			t.Fatalf("%s violated [%s]: %s\nscenario: %+v\nlast steps:\n%s", prop, sig, msg, s, o.w.describeTrace(30))
		}
		if s.RealAccept {
			st.class("accepted-by-real-onAccept")
		}
		if o.w.count("sweep-close") > 0 {
			st.class("sweeper-closed-idle-connection")
		}
		if o.w.count("sweep-busy") > 0 {
			st.class("sweeper-found-connection-busy")
		}
		st.class("strategy-" + []string{"uniform", "fewpreempt", "pct"}[o.w.strategy])
		if s.Handler != "" {
			st.class("handler-" + s.Handler)
		}
		if o.peerClosed {
			st.class("peer-closed")
		}
		if s.Client {
			st.class("client")
		}
		st.classN("steps", int64(len(o.w.s.Trace)))
		if connNontrivial(s, o) {
			st.class("nontrivial")
			if st.nontrivial(connCanon(s, o)) {
				st.sample(map[string]interface{}{"scenario": s, "events": o.w.names(), "steps": len(o.w.s.Trace)})
			}
		}
	}
}

func connTest(t *testing.T, prop string) {
	st := newStats(prop)
	defer st.write()
	if vReplay != "" {
		var rec struct {
			Scenario  connScn   `json:"scenario"`
			Decisions []vs.Step `json:"decisions"`
		}
		if err := vLoadReplay(&rec); err != nil {
			t.Fatalf("replay: %v", err)
		}
		rec.Scenario.Prop = prop
		o := runConn(nil, rec.Scenario, rec.Decisions)
		defer o.w.close()
		st.eval()
		if sig, msg := judgeConn(rec.Scenario, o); sig != "" {
			vReport(vViolation{Property: prop, Slot: "replay:" + prop, Signature: sig, Message: msg, Replay: e2Replay{Scenario: rec.Scenario, Decisions: o.w.trace(), Events: o.w.names()}})
			t.Fatalf("%s violated [%s]: %s", prop, sig, msg)
		}
		if o.w.diverged {
			t.Logf("note: the recorded schedule could not be followed exactly (the tree changed)")
		}
		return
	}
	connKnown(prop, st)
	rapid.Check(t, connProperty(prop, st))
}

// connKnown runs, once per check, the canonical reproducer of every finding listed as `known`
// for this property and reports whether it still fails.
func connKnown(prop string, st *vStats) {
	if os.Getenv("VERIF_REGRESS") == "" {
		return // only the first process of a check does this
	}
	if prop == "C09" && vExclusions()["F13"] {
		s := connScn{Prop: "C09", Request: true, Handler: "all", HandlerYields: 2, Disconnect: true, NCallbacks: 2,
			Peer: []peerAct{{Op: "write", N: 5}, {Op: "close"}}, direct: "F13"}
		o := runConn(nil, s, nil)
		sig, msg := judgeConn(s, o)
		o.w.close()
		st.eval()
		st.class("known-reproducer")
		if sig == "disconnect-after-callbacks" {
			vKnown("C09", "F13", "OnDisconnect runs after the close callbacks when the handler task exits between onHup's closeBy(poller) and its onDisconnect call: "+msg)
		} else if sig != "" {
			vReport(vViolation{Property: prop, Slot: "known-reproducer:F13", Signature: sig, Message: msg, Replay: e2Replay{Scenario: s, Decisions: o.w.trace(), Events: o.w.names()}})
		}
	}
}

func TestVerifC05(t *testing.T) { connTest(t, "C05") }
func TestVerifC06(t *testing.T) { connTest(t, "C06") }
func TestVerifC09(t *testing.T) { connTest(t, "C09") }
